(** C20P.v — the invariant that couples the hub model (any schedule) with the monitor,
    its preservation by every step, and the headline theorem. *)
From Srtla Require Import Base Hub Run_C20 HubP.
From Coq Require Import ZifyBool Lia.

Definition mk (id tp c : Z) : entry := {| e_id := id; e_topic := tp; e_chan := c |}.

Definition sub_pending (s : state) (t id tp c : Z) : Prop :=
  get_pc s t = SubWait id tp c \/ get_pc s t = SubHold id tp c.

Definition queued (s : state) (c : Z) (mg : msg) (q : nat) : Prop :=
  exists ch, lookup (chans s) c = Some ch /\ In (mg, q) (c_q ch).

Definition closed_in (s : state) (c : Z) : Prop :=
  exists ch, lookup (chans s) c = Some ch /\ c_closed ch = true.

(** queue order: publication numbers never decrease along a queue, and two lines of the
    same publication carry different ids *)
Definition qR (x y : msg * nat) : Prop :=
  (snd x < snd y)%nat \/ (snd x = snd y /\ m_id (fst x) <> m_id (fst y)).
Fixpoint qsorted (l : list (msg * nat)) : Prop :=
  match l with [] => True | x :: r => Forall (qR x) r /\ qsorted r end.

Definition prune_ok (s : state) (m : mstate) (ids : list Z) (pr : list Z) (tp : Z) (rest : list entry) : Prop :=
  forall id, In id ids ->
    is_returned m id = true /\
    (~ In id (ids_of (entries s)) \/ In id pr \/
     exists e, In e rest /\ e_id e = id /\ e_topic e = tp /\ closed_in s (e_chan e)).

Definition pend_ok (s : state) (m : mstate) (t : Z) : Prop :=
  match get_pc s t with
  | Idle => lookup (m_pend m) t = None
  | SubWait _ tp c | SubHold _ tp c =>
    exists p, lookup (m_pend m) t = Some p /\ p_op p = OSub tp c
  | UnsubWait id | UnsubHold id =>
    exists p, lookup (m_pend m) t = Some p /\ p_op p = OUnsub id /\ (p_n p = 1 -> is_returned m id = true)
  | LenWait | LenHold =>
    exists p, lookup (m_pend m) t = Some p /\ p_op p = OLen /\ p_n p <= blen (m_dead m)
  | PubWait tp d =>
    exists p, lookup (m_pend m) t = Some p /\ p_op p = OPub tp d /\ p_lin p = false
  | PubFan tp d rest pr =>
    exists p, lookup (m_pend m) t = Some p /\ (exists tp' d', p_op p = OPub tp' d') /\ p_lin p = true /\
              prune_ok s m (p_ids p) pr tp rest
  | PruneWait pr | PruneHold pr =>
    exists p, lookup (m_pend m) t = Some p /\ (exists tp' d', p_op p = OPub tp' d') /\ p_lin p = true /\
              prune_ok s m (p_ids p) pr 0 []
  end.

Definition dead_ok (s : state) (id : Z) (n : nat) : Prop :=
  ~ In id (ids_of (entries s)) /\
  (forall t tp c, ~ sub_pending s t id tp c) /\
  In id (ids_of (alloc s)) /\
  (n <= npub s)%nat /\
  (get_lastq s id <= n)%nat /\
  (forall c mg q, queued s c mg q -> m_id mg = id -> (q < n)%nat).

Record Inv (s : state) (m : mstate) : Prop := {
  i_lock : forall t, holding (get_pc s t) = true <-> lock s = Some t;
  i_alloc_nd : NoDup (ids_of (alloc s));
  i_alloc_lt : forall e, In e (alloc s) -> e_id e < next_id s;
  i_ent_alloc : incl (entries s) (alloc s);
  i_ent_nd : NoDup (ids_of (entries s));
  i_subp : forall t id tp c, sub_pending s t id tp c ->
             In (mk id tp c) (alloc s) /\ ~ In id (ids_of (entries s));
  i_subp_uniq : forall t t' id tp c tp' c',
             sub_pending s t id tp c -> sub_pending s t' id tp' c' -> t = t';
  i_fan : forall t tp d rest pr, get_pc s t = PubFan tp d rest pr ->
             NoDup (ids_of rest) /\ incl rest (entries s) /\ (0 < npub s)%nat /\
             nth_error (m_pubs m) (pred (npub s)) = Some (tp, d);
  i_q : forall c mg q, queued s c mg q ->
             (q < npub s)%nat /\ In (mk (m_id mg) (m_topic mg) c) (alloc s) /\
             (get_lastq s (m_id mg) <= q)%nat;
  i_qsorted : forall c ch, lookup (chans s) c = Some ch -> qsorted (c_q ch);
  i_lastq : forall id, (get_lastq s id <= npub s)%nat;
  i_fanq : forall t tp d rest pr, get_pc s t = PubFan tp d rest pr ->
             forall id, In id (ids_of rest) ->
               (get_lastq s id < npub s)%nat /\
               forall c mg q, queued s c mg q -> m_id mg = id -> (S q < npub s)%nat;
  i_pend : forall t, pend_ok s m t;
  i_known : forall id k, lookup (m_known m) id = Some k ->
             In (mk id (k_topic k) (k_chan k)) (alloc s);
  i_ret_or_pend : forall e, In e (alloc s) ->
             is_returned m (e_id e) = true \/
             exists t, sub_pending s t (e_id e) (e_topic e) (e_chan e);
  i_ret_excl : forall id t tp c, is_returned m id = true -> ~ sub_pending s t id tp c;
  i_closed : forall c, zmem c (m_closed m) = true -> closed_in s c;
  i_pubs_len : length (m_pubs m) = npub s;
  i_pubs : forall c mg q, queued s c mg q ->
             nth_error (m_pubs m) q = Some (m_topic mg, m_data mg);
  i_last : forall id, (get_last m id <= get_lastq s id)%nat;
  i_dead : forall id n, lookup (m_dead m) id = Some n -> dead_ok s id n;
  i_dead_nd : NoDup (map fst (m_dead m));
  i_nsub : m_nsub m = blen (alloc s)
}.

(** ---- small facts ---- *)
Lemma NoDup_snoc : forall A (l : list A) x, NoDup l -> ~ In x l -> NoDup (l ++ [x]).
Proof.
  induction l as [|y r IH]; intros x Hnd Hx; cbn.
  - constructor; [tauto|constructor].
  - inversion Hnd; subst. constructor.
    + rewrite in_app_iff. cbn. intros [H|[H|[]]]; [tauto|subst; apply Hx; left; reflexivity].
    + apply IH; [assumption|]. intro H. apply Hx. right. exact H.
Qed.

Lemma lookup_None_notin : forall A (l : list (Z * A)) k, lookup l k = None -> ~ In k (map fst l).
Proof.
  induction l as [|[k0 v0] r IH]; intros k H; cbn in *; [tauto|].
  destruct (k0 =? k) eqn:E; [discriminate|]. intros [H1|H1]; [lia|]. exact (IH k H H1).
Qed.

Lemma lookup_app_None : forall A (l : list (Z * A)) k k' v, lookup l k = None ->
  lookup (l ++ [(k, v)]) k' = if k =? k' then Some v else lookup l k'.
Proof.
  induction l as [|[k0 v0] r IH]; intros k k' v H; cbn in *.
  - destruct (k =? k'); reflexivity.
  - destruct (k0 =? k) eqn:E; [discriminate|].
    destruct (k0 =? k') eqn:E1.
    + destruct (k =? k') eqn:E2; [lia|reflexivity].
    + apply IH. exact H.
Qed.

Lemma lookup_app_Some : forall A (l : list (Z * A)) k v x, lookup l k = Some v -> lookup (l ++ x) k = Some v.
Proof.
  induction l as [|[k0 v0] r IH]; intros k v x H; cbn in *; [discriminate|].
  destruct (k0 =? k); [exact H|]. apply IH. exact H.
Qed.

Lemma zmem_In : forall x l, zmem x l = true <-> In x l.
Proof.
  intros x l. unfold zmem. rewrite existsb_exists. split.
  - intros [y [H1 H2]]. assert (x = y) by lia. subst. exact H1.
  - intro H. exists x. split; [exact H|lia].
Qed.

Lemma ids_of_app : forall a b, ids_of (a ++ b) = ids_of a ++ ids_of b.
Proof. intros. unfold ids_of. apply map_app. Qed.

Lemma in_ids_of : forall id l, In id (ids_of l) <-> exists e, In e l /\ e_id e = id.
Proof.
  intros. unfold ids_of. rewrite in_map_iff. split; intros [e [H1 H2]]; exists e; tauto.
Qed.

(** entries with distinct ids: the id determines the entry *)
Lemma nodup_ids_inj : forall l e1 e2, NoDup (ids_of l) -> In e1 l -> In e2 l -> e_id e1 = e_id e2 -> e1 = e2.
Proof.
  induction l as [|x r IH]; intros e1 e2 Hnd H1 H2 Heq; cbn in *; [tauto|].
  inversion Hnd as [|? ? Hx Hr]; subst.
  destruct H1 as [H1|H1], H2 as [H2|H2]; subst.
  - reflexivity.
  - exfalso. apply Hx. apply in_ids_of. exists e2. split; [exact H2|symmetry; exact Heq].
  - exfalso. apply Hx. apply in_ids_of. exists e1. split; [exact H1|exact Heq].
  - apply IH; assumption.
Qed.

Lemma filter_ids_notin : forall (f : entry -> bool) l id,
  (forall e, e_id e = id -> f e = false) -> ~ In id (ids_of (filter f l)).
Proof.
  intros f l id Hf H. apply in_ids_of in H. destruct H as [e [H1 H2]].
  apply filter_In in H1. destruct H1 as [_ H1]. rewrite (Hf e H2) in H1. discriminate.
Qed.

Lemma filter_ids_incl : forall (f : entry -> bool) l id, In id (ids_of (filter f l)) -> In id (ids_of l).
Proof.
  intros f l id H. apply in_ids_of in H. destruct H as [e [H1 H2]].
  apply filter_In in H1. apply in_ids_of. exists e. tauto.
Qed.

Lemma filter_ids_nodup : forall (f : entry -> bool) l, NoDup (ids_of l) -> NoDup (ids_of (filter f l)).
Proof.
  induction l as [|x r IH]; intro H; cbn in *; [constructor|].
  inversion H as [|? ? Hx Hr]; subst.
  destruct (f x); cbn.
  - constructor; [|apply IH; exact Hr]. intro H1. apply Hx. eapply filter_ids_incl. exact H1.
  - apply IH. exact Hr.
Qed.

Lemma filter_len_le : forall (f : entry -> bool) l, (length (filter f l) <= length l)%nat.
Proof. induction l as [|x r IH]; cbn; [lia|]. destruct (f x); cbn; lia. Qed.

Lemma filter_same_length : forall (f : entry -> bool) l,
  blen (filter f l) = blen l -> filter f l = l.
Proof.
  unfold blen. induction l as [|x r IH]; intro H; cbn in *; [reflexivity|].
  destruct (f x); cbn in *.
  - f_equal. apply IH. lia.
  - pose proof (filter_len_le f r). lia.
Qed.

Lemma qsorted_app : forall l y, qsorted l -> Forall (fun x => qR x y) l -> qsorted (l ++ [y]).
Proof.
  induction l as [|x r IH]; intros y Hs Hf; cbn in *.
  - split; constructor.
  - destruct Hs as [H1 H2]. inversion Hf; subst. split.
    + apply Forall_app. split; [exact H1|constructor; [assumption|constructor]].
    + apply IH; assumption.
Qed.

(** greedy subsequence matching finds a position no later than any actual one *)
Lemma find_from_spec : forall l i start k q,
  (start <= q)%nat -> (i <= q)%nat -> nth_error l (q - i) = Some k ->
  exists p, find_from l i start k = Some p /\ (start <= p)%nat /\ (p <= q)%nat.
Proof.
  induction l as [|x r IH]; intros i start k q Hs Hi Hn; cbn.
  - destruct (q - i)%nat; discriminate.
  - destruct ((start <=? i)%nat && (fst x =? fst k) && (snd x =? snd k)) eqn:E.
    + exists i. split; [reflexivity|]. lia.
    + destruct (Nat.eq_dec q i) as [->|Hne].
      * exfalso. rewrite Nat.sub_diag in Hn. cbn in Hn. inversion Hn. subst x.
        assert ((start <=? i)%nat = true) by (apply Nat.leb_le; lia).
        rewrite H, !Z.eqb_refl in E. discriminate.
      * apply IH; try lia.
        replace (q - i)%nat with (S (q - S i))%nat in Hn by lia. exact Hn.
Qed.

Lemma mark_dead_lookup : forall d n id id',
  lookup (mark_dead d n id) id' =
  match lookup d id' with Some x => Some x | None => if id =? id' then Some n else None end.
Proof.
  intros. unfold mark_dead. destruct (lookup d id) eqn:E.
  - destruct (lookup d id') eqn:E'; [reflexivity|].
    destruct (id =? id') eqn:E2; [|reflexivity]. assert (id = id') by lia. congruence.
  - rewrite lookup_app_None by exact E. destruct (lookup d id') eqn:E'.
    + destruct (id =? id') eqn:E2; [|reflexivity]. assert (id = id') by lia. congruence.
    + reflexivity.
Qed.

Lemma mark_dead_nodup : forall d n id, NoDup (map fst d) -> NoDup (map fst (mark_dead d n id)).
Proof.
  intros. unfold mark_dead. destruct (lookup d id) eqn:E; [assumption|].
  rewrite map_app. cbn. apply NoDup_snoc; [assumption|]. apply lookup_None_notin. exact E.
Qed.

Lemma mark_dead_len : forall d n id, blen d <= blen (mark_dead d n id).
Proof.
  intros. unfold mark_dead, blen. destruct (lookup d id); [lia|]. rewrite app_length. cbn. lia.
Qed.

(** ---- reading program counters of an updated state ---- *)
Lemma gp_eq : forall (X s : state) t p, pcs X = update (pcs s) t p -> get_pc X t = p.
Proof. intros X s t p H. unfold get_pc. rewrite H, lookup_update_eq. reflexivity. Qed.
Lemma gp_neq : forall (X s : state) t p t', pcs X = update (pcs s) t p -> t <> t' -> get_pc X t' = get_pc s t'.
Proof. intros X s t p t' H Hn. unfold get_pc. rewrite H, lookup_update_neq by exact Hn. reflexivity. Qed.

Lemma subp_neq : forall (X s : state) t p t' id tp c, pcs X = update (pcs s) t p -> t <> t' ->
  (sub_pending X t' id tp c <-> sub_pending s t' id tp c).
Proof. intros. unfold sub_pending. rewrite (gp_neq X s t p t') by assumption. tauto. Qed.

Lemma is_returned_known : forall m id, is_returned m id = true ->
  exists k, lookup (m_known m) id = Some k /\ k_ret k = true.
Proof.
  intros m id H. unfold is_returned in H. destruct (lookup (m_known m) id) as [k|]; [|discriminate].
  exists k. tauto.
Qed.

Ltac unchanged HI :=
  first [ exact (i_lock _ _ HI) | exact (i_alloc_nd _ _ HI) | exact (i_alloc_lt _ _ HI)
        | exact (i_ent_alloc _ _ HI) | exact (i_ent_nd _ _ HI) | exact (i_subp _ _ HI)
        | exact (i_subp_uniq _ _ HI) | exact (i_fan _ _ HI) | exact (i_q _ _ HI)
        | exact (i_qsorted _ _ HI) | exact (i_lastq _ _ HI) | exact (i_fanq _ _ HI)
        | exact (i_pend _ _ HI) | exact (i_known _ _ HI) | exact (i_ret_or_pend _ _ HI)
        | exact (i_ret_excl _ _ HI) | exact (i_closed _ _ HI) | exact (i_pubs_len _ _ HI)
        | exact (i_pubs _ _ HI) | exact (i_last _ _ HI) | exact (i_dead _ _ HI)
        | exact (i_dead_nd _ _ HI) | exact (i_nsub _ _ HI) ].

Lemma inv_init : Inv init m_init.
Proof.
  constructor.
  - intro t. unfold get_pc; cbn. split; discriminate.
  - constructor.
  - intros e [].
  - intros e [].
  - constructor.
  - intros t id tp c [H|H]; unfold get_pc in H; cbn in H; discriminate.
  - intros t t' id tp c tp' c' [H|H]; unfold get_pc in H; cbn in H; discriminate.
  - intros t tp d rest pr H. unfold get_pc in H; cbn in H; discriminate.
  - intros c mg q [ch [H _]]. cbn in H. discriminate.
  - intros c ch H. cbn in H. discriminate.
  - intros id. unfold get_lastq; cbn. lia.
  - intros t tp d rest pr H. unfold get_pc in H; cbn in H; discriminate.
  - intro t. unfold pend_ok, get_pc; cbn. reflexivity.
  - intros id k H. cbn in H. discriminate.
  - intros e [].
  - intros id t tp c H. unfold is_returned in H. cbn in H. discriminate.
  - intros c H. cbn in H. discriminate.
  - reflexivity.
  - intros c mg q [ch [H _]]. cbn in H. discriminate.
  - intros id. unfold get_last, get_lastq; cbn. lia.
  - intros id n H. cbn in H. discriminate.
  - constructor.
  - reflexivity.
Qed.

(** ---- frame lemma for the per-task coupling ---- *)
Lemma prune_ok_frame : forall s m s' m' ids pr tp rest,
  (forall id, is_returned m id = true -> is_returned m' id = true) ->
  (forall id, is_returned m id = true -> ~ In id (ids_of (entries s)) -> ~ In id (ids_of (entries s'))) ->
  (forall c, closed_in s c -> closed_in s' c) ->
  prune_ok s m ids pr tp rest -> prune_ok s' m' ids pr tp rest.
Proof.
  intros s m s' m' ids pr tp rest Hr He Hc Hp id Hin.
  destruct (Hp id Hin) as [H0 [H1|[H1|[e [H1 [H2 [H3 H4]]]]]]]; split; auto.
  right. right. exists e. auto.
Qed.

Lemma pend_ok_frame : forall s m s' m' t,
  get_pc s' t = get_pc s t ->
  lookup (m_pend m') t = lookup (m_pend m) t ->
  (forall id, is_returned m id = true -> is_returned m' id = true) ->
  blen (m_dead m) <= blen (m_dead m') ->
  (forall id, is_returned m id = true -> ~ In id (ids_of (entries s)) -> ~ In id (ids_of (entries s'))) ->
  (forall c, closed_in s c -> closed_in s' c) ->
  pend_ok s m t -> pend_ok s' m' t.
Proof.
  intros s m s' m' t Hpc Hl Hr Hd He Hc. unfold pend_ok. rewrite Hpc, Hl.
  destruct (get_pc s t); try tauto.
  all: try (intros [p [H1 [H2 H3]]]; exists p; repeat split; auto; lia).
  all: intros [p [H1 [H2 [H3 H4]]]]; exists p; repeat split; auto; eapply prune_ok_frame; eauto.
Qed.

(** a call that starts by waiting for the mutex: unsubscribe, publish, len *)
Definition wait_of (o : op) : option pc :=
  match o with
  | OUnsub id => Some (UnsubWait id) | OPub tp d => Some (PubWait tp d) | OLen => Some LenWait
  | _ => None
  end.

Lemma inv_start_wait : forall s m t o p, Inv s m -> get_pc s t = Idle -> wait_of o = Some p ->
  exists m', mon_step m (ECall t o) = MOk m' /\ Inv (set_pc s t p) m'.
Proof.
  intros s m t o p HI Hidle Hw.
  pose proof (i_pend _ _ HI t) as Hp. unfold pend_ok in Hp. rewrite Hidle in Hp.
  assert (Hhub : is_hub_op o = true) by (destruct o; cbn in Hw; try discriminate; reflexivity).
  assert (Hnh : holding p = false) by (destruct o; cbn in Hw; inversion Hw; reflexivity).
  assert (Hns : forall id tp c, p <> SubWait id tp c /\ p <> SubHold id tp c)
    by (intros; destruct o; cbn in Hw; inversion Hw; split; discriminate).
  assert (Hnf : forall tp d rest pr, p <> PubFan tp d rest pr)
    by (intros; destruct o; cbn in Hw; inversion Hw; discriminate).
  assert (Hnsub : match o with OSub _ _ => False | _ => True end) by (destruct o; cbn in Hw; try discriminate; exact I).
  eexists. split.
  { cbn [mon_step]. rewrite Hhub, Hp. reflexivity. }
  assert (Hpcs : pcs (set_pc s t p) = update (pcs s) t p) by reflexivity.
  assert (Hsub : forall t' id tp c, sub_pending (set_pc s t p) t' id tp c -> t <> t' /\ sub_pending s t' id tp c).
  { intros t' id tp c H. destruct (Z.eq_dec t t') as [<-|Hne].
    - exfalso. unfold sub_pending in H. rewrite (gp_eq _ s t p Hpcs) in H. destruct (Hns id tp c). tauto.
    - split; [exact Hne|]. apply (subp_neq _ s t p t' id tp c Hpcs Hne). exact H. }
  assert (Hsub' : forall t' id tp c, sub_pending s t' id tp c -> sub_pending (set_pc s t p) t' id tp c).
  { intros t' id tp c H. destruct (Z.eq_dec t t') as [<-|Hne].
    - exfalso. unfold sub_pending in H. rewrite Hidle in H. destruct H; discriminate.
    - apply (subp_neq _ s t p t' id tp c Hpcs Hne). exact H. }
  assert (Hfan : forall t' tp d rest pr, get_pc (set_pc s t p) t' = PubFan tp d rest pr -> get_pc s t' = PubFan tp d rest pr).
  { intros t' tp d rest pr H. destruct (Z.eq_dec t t') as [<-|Hne].
    - exfalso. rewrite (gp_eq _ s t p Hpcs) in H. exact (Hnf _ _ _ _ H).
    - rewrite (gp_neq _ s t p t' Hpcs Hne) in H. exact H. }
  constructor; try (unchanged HI).
  - (* lock *) intro t'. destruct (Z.eq_dec t t') as [<-|Hne].
    + rewrite (gp_eq _ s t p Hpcs), Hnh. cbn [lock set_pc]. split; [discriminate|].
      intro H. apply (i_lock _ _ HI) in H. rewrite Hidle in H. discriminate.
    + rewrite (gp_neq _ s t p t' Hpcs Hne). exact (i_lock _ _ HI t').
  - intros t' id tp c H. apply Hsub in H. exact (i_subp _ _ HI t' id tp c (proj2 H)).
  - intros t1 t2 id tp c tp' c' H1 H2. apply Hsub in H1. apply Hsub in H2.
    exact (i_subp_uniq _ _ HI _ _ _ _ _ _ _ (proj2 H1) (proj2 H2)).
  - intros t' tp d rest pr H. exact (i_fan _ _ HI t' tp d rest pr (Hfan _ _ _ _ _ H)).
  - intros t' tp d rest pr H. exact (i_fanq _ _ HI t' tp d rest pr (Hfan _ _ _ _ _ H)).
  - (* pend *) intro t'. destruct (Z.eq_dec t t') as [<-|Hne].
    + unfold pend_ok. rewrite (gp_eq _ s t p Hpcs). cbn [m_pend set_pend].
      destruct o; cbn in Hw; inversion Hw; subst p; eexists; (split; [apply lookup_update_eq|]); cbn.
      * split; [reflexivity|]. unfold is_returned. cbn. destruct (lookup (m_known m) id) as [k|]; [|lia].
        destruct (k_ret k); [reflexivity|lia].
      * split; reflexivity.
      * split; [reflexivity|lia].
    + apply (pend_ok_frame s m); try (intros; assumption); try lia.
      * apply (gp_neq _ s t p t' Hpcs Hne).
      * cbn. apply lookup_update_neq. exact Hne.
      * cbn. lia.
      * exact (i_pend _ _ HI t').
  - intros e He. destruct (i_ret_or_pend _ _ HI e He) as [H|[t' H]]; [left; exact H|].
    right. exists t'. apply Hsub'. exact H.
  - intros id t' tp c Hr H. apply Hsub in H. exact (i_ret_excl _ _ HI id t' tp c Hr (proj2 H)).
  - intros id n H. destruct (i_dead _ _ HI id n H) as [D1 [D2 D3]]. split; [exact D1|]. split; [|exact D3].
    intros t' tp c Hs. apply Hsub in Hs. exact (D2 t' tp c (proj2 Hs)).
  - cbn. destruct o; cbn in Hnsub; try tauto; exact (i_nsub _ _ HI).
Qed.

Lemma alloc_id_lt : forall s m id, Inv s m -> In id (ids_of (alloc s)) -> id < next_id s.
Proof.
  intros s m id HI H. apply in_ids_of in H. destruct H as [e [H1 H2]]. subst id. exact (i_alloc_lt _ _ HI e H1).
Qed.

Lemma in_mk_ids : forall id tp c l, In (mk id tp c) l -> In id (ids_of l).
Proof. intros. apply in_ids_of. exists (mk id tp c). split; [assumption|reflexivity]. Qed.

(** subscribe: allocate the id, then wait for the mutex *)
Lemma inv_start_sub : forall s m t tp c, Inv s m -> get_pc s t = Idle ->
  exists m', mon_step m (ECall t (OSub tp c)) = MOk m' /\ Inv (fst (start s t (OSub tp c))) m'.
Proof.
  intros s m t tp c HI Hidle.
  pose proof (i_pend _ _ HI t) as Hp. unfold pend_ok in Hp. rewrite Hidle in Hp.
  unfold start. rewrite Hidle. cbn [fst].
  set (id := next_id s). set (p := SubWait id tp c).
  set (X := {| entries := entries s; next_id := id + 1; lock := lock s; chans := chans s;
               pcs := update (pcs s) t p; npub := npub s;
               alloc := alloc s ++ [{| e_id := id; e_topic := tp; e_chan := c |}]; lastq := lastq s |}).
  eexists. split.
  { cbn [mon_step is_hub_op]. rewrite Hp. reflexivity. }
  assert (Hpcs : pcs X = update (pcs s) t p) by reflexivity.
  assert (Hfresh : ~ In id (ids_of (alloc s))).
  { intro H. apply (alloc_id_lt _ _ _ HI) in H. unfold id in H. lia. }
  assert (Hsub : forall t' id' tp' c', sub_pending X t' id' tp' c' ->
            (t = t' /\ id' = id /\ tp' = tp /\ c' = c) \/ (t <> t' /\ sub_pending s t' id' tp' c')).
  { intros t' id' tp' c' H. destruct (Z.eq_dec t t') as [<-|Hne].
    - left. unfold sub_pending in H. rewrite (gp_eq _ s t p Hpcs) in H. unfold p in H.
      destruct H as [H|H]; inversion H. tauto.
    - right. split; [exact Hne|]. apply (subp_neq _ s t p t' id' tp' c' Hpcs Hne). exact H. }
  assert (Hsub' : forall t' id' tp' c', sub_pending s t' id' tp' c' -> sub_pending X t' id' tp' c').
  { intros t' id' tp' c' H. destruct (Z.eq_dec t t') as [<-|Hne].
    - exfalso. unfold sub_pending in H. rewrite Hidle in H. destruct H; discriminate.
    - apply (subp_neq _ s t p t' id' tp' c' Hpcs Hne). exact H. }
  assert (Hfan : forall t' tp' d rest pr, get_pc X t' = PubFan tp' d rest pr -> get_pc s t' = PubFan tp' d rest pr).
  { intros t' tp' d rest pr H. destruct (Z.eq_dec t t') as [<-|Hne].
    - exfalso. rewrite (gp_eq _ s t p Hpcs) in H. discriminate.
    - rewrite (gp_neq _ s t p t' Hpcs Hne) in H. exact H. }
  constructor; try (unchanged HI).
  - intro t'. destruct (Z.eq_dec t t') as [<-|Hne].
    + rewrite (gp_eq _ s t p Hpcs). cbn. split; [discriminate|].
      intro H. apply (i_lock _ _ HI) in H. rewrite Hidle in H. discriminate.
    + rewrite (gp_neq _ s t p t' Hpcs Hne). exact (i_lock _ _ HI t').
  - cbn [alloc X]. rewrite ids_of_app. cbn. apply NoDup_snoc; [exact (i_alloc_nd _ _ HI)|exact Hfresh].
  - cbn [alloc next_id X]. intros e He. apply in_app_or in He. destruct He as [He|[<-|[]]].
    + pose proof (i_alloc_lt _ _ HI e He). unfold id. lia.
    + cbn. lia.
  - cbn [alloc entries X]. apply incl_appl. exact (i_ent_alloc _ _ HI).
  - intros t' id' tp' c' H. cbn [alloc entries X]. destruct (Hsub _ _ _ _ H) as [[-> [-> [-> ->]]]|[Hne H1]].
    + split; [apply in_or_app; right; left; reflexivity|].
      intro H2. apply Hfresh. apply in_ids_of in H2. destruct H2 as [e [H2 H3]].
      apply in_ids_of. exists e. split; [apply (i_ent_alloc _ _ HI); exact H2|exact H3].
    + destruct (i_subp _ _ HI _ _ _ _ H1) as [H2 H3]. split; [apply in_or_app; left; exact H2|exact H3].
  - intros t1 t2 id' tp1 c1 tp2 c2 H1 H2.
    destruct (Hsub _ _ _ _ H1) as [[<- [-> [-> ->]]]|[Hne1 H1']];
    destruct (Hsub _ _ _ _ H2) as [[<- [E2 [-> ->]]]|[Hne2 H2']]; try reflexivity.
    + exfalso. apply Hfresh. eapply in_mk_ids. exact (proj1 (i_subp _ _ HI _ _ _ _ H2')).
    + exfalso. subst id'. apply Hfresh. eapply in_mk_ids. exact (proj1 (i_subp _ _ HI _ _ _ _ H1')).
    + exact (i_subp_uniq _ _ HI _ _ _ _ _ _ _ H1' H2').
  - intros t' tp' d rest pr H. exact (i_fan _ _ HI t' tp' d rest pr (Hfan _ _ _ _ _ H)).
  - intros c' mg q H. destruct (i_q _ _ HI c' mg q H) as [H1 [H2 H3]].
    split; [exact H1|]. split; [|exact H3]. cbn [alloc X]. apply in_or_app. left. exact H2.
  - intros t' tp' d rest pr H. exact (i_fanq _ _ HI t' tp' d rest pr (Hfan _ _ _ _ _ H)).
  - intro t'. destruct (Z.eq_dec t t') as [<-|Hne].
    + unfold pend_ok. rewrite (gp_eq _ s t p Hpcs). unfold p. eexists. split; [cbn; apply lookup_update_eq|reflexivity].
    + apply (pend_ok_frame s m); try (intros; assumption); try lia.
      * apply (gp_neq _ s t p t' Hpcs Hne).
      * cbn. apply lookup_update_neq. exact Hne.
      * cbn. lia.
      * exact (i_pend _ _ HI t').
  - intros id' k H. cbn [alloc X]. apply in_or_app. left. exact (i_known _ _ HI id' k H).
  - cbn [alloc X]. intros e He. apply in_app_or in He. destruct He as [He|[<-|[]]].
    + destruct (i_ret_or_pend _ _ HI e He) as [H|[t' H]]; [left; exact H|].
      right. exists t'. apply Hsub'. exact H.
    + right. exists t. left. cbn. apply (gp_eq _ s t p Hpcs).
  - intros id' t' tp' c' Hr H. destruct (Hsub _ _ _ _ H) as [[-> [-> [-> ->]]]|[Hne H1]].
    + apply is_returned_known in Hr. destruct Hr as [k [Hk _]].
      apply Hfresh. eapply in_mk_ids. exact (i_known _ _ HI _ _ Hk).
    + exact (i_ret_excl _ _ HI id' t' tp' c' Hr H1).
  - intros id' n H. destruct (i_dead _ _ HI id' n H) as [D1 [D2 [D3 D4]]]. split; [exact D1|]. split; [|split; [|exact D4]].
    + intros t' tp' c' Hs. destruct (Hsub _ _ _ _ Hs) as [[-> [-> [-> ->]]]|[Hne H1]].
      * exact (Hfresh D3).
      * exact (D2 t' tp' c' H1).
    + cbn [alloc X]. rewrite ids_of_app. apply in_or_app. left. exact D3.
  - cbn. rewrite (i_nsub _ _ HI). unfold blen. rewrite app_length. cbn. lia.
Qed.

(** changing only the channels: queues may shrink, channels may be created empty or closed *)
Lemma inv_chans : forall s m cs, Inv s m ->
  (forall c mg q, queued (set_chans s cs) c mg q -> queued s c mg q) ->
  (forall c ch, lookup cs c = Some ch -> qsorted (c_q ch)) ->
  (forall c, closed_in s c -> closed_in (set_chans s cs) c) ->
  Inv (set_chans s cs) m.
Proof.
  intros s m cs HI Hq Hs Hc.
  constructor; try (unchanged HI).
  - intros c mg q H. exact (i_q _ _ HI c mg q (Hq _ _ _ H)).
  - exact Hs.
  - intros t tp d rest pr H id Hin. destruct (i_fanq _ _ HI t tp d rest pr H id Hin) as [H1 H2].
    split; [exact H1|]. intros c mg q Hqq. exact (H2 c mg q (Hq _ _ _ Hqq)).
  - intro t. apply (pend_ok_frame s m); try (intros; assumption); try reflexivity; try lia; try exact Hc.
    exact (i_pend _ _ HI t).
  - intros c H. apply Hc. exact (i_closed _ _ HI c H).
  - intros c mg q H. exact (i_pubs _ _ HI c mg q (Hq _ _ _ H)).
  - intros id n H. destruct (i_dead _ _ HI id n H) as [D1 [D2 [D3 [D4 [D5 D6]]]]].
    repeat split; try assumption. intros c mg q Hqq. exact (D6 c mg q (Hq _ _ _ Hqq)).
Qed.

Lemma queued_update : forall s c ch c' mg q,
  queued (set_chans s (update (chans s) c ch)) c' mg q ->
  (c = c' /\ In (mg, q) (c_q ch)) \/ (c <> c' /\ queued s c' mg q).
Proof.
  intros s c ch c' mg q [ch' [H1 H2]]. cbn in H1. rewrite lookup_update in H1.
  destruct (c =? c') eqn:E.
  - left. inversion H1. subst. split; [lia|exact H2].
  - right. split; [lia|]. exists ch'. tauto.
Qed.

Lemma closed_update : forall s c ch c',
  closed_in s c' -> (c = c' -> c_closed ch = true) -> closed_in (set_chans s (update (chans s) c ch)) c'.
Proof.
  intros s c ch c' [ch' [H1 H2]] Hc. unfold closed_in. cbn. rewrite lookup_update.
  destruct (c =? c') eqn:E.
  - exists ch. split; [reflexivity|]. apply Hc. lia.
  - exists ch'. tauto.
Qed.

Lemma inv_start_chan : forall s m t c cap, Inv s m -> Inv (fst (start s t (OChan c cap))) m.
Proof.
  intros s m t c cap HI. unfold start. destruct (get_pc s t); try exact HI.
  destruct (lookup (chans s) c) eqn:E; [exact HI|]. cbn [fst].
  apply inv_chans; [exact HI| | |].
  - intros c' mg q H. apply queued_update in H. destruct H as [[_ []]|[_ H]]. exact H.
  - intros c' ch H. rewrite lookup_update in H. destruct (c =? c').
    + inversion H. cbn. exact I.
    + exact (i_qsorted _ _ HI c' ch H).
  - intros c' H. apply closed_update; [exact H|]. intros ->. destruct H as [ch [H _]]. congruence.
Qed.

Lemma inv_mclosed : forall s m c, Inv s m -> closed_in s c ->
  Inv s {| m_pend := m_pend m; m_known := m_known m; m_pubs := m_pubs m; m_last := m_last m;
           m_dead := m_dead m; m_closed := c :: m_closed m; m_nsub := m_nsub m |}.
Proof.
  intros s m c HI Hc. constructor; try (unchanged HI).
  - intros c' H. cbn in H. destruct (c' =? c) eqn:E.
    + assert (c' = c) by lia. subst. exact Hc.
    + cbn in H. exact (i_closed _ _ HI c' H).
Qed.

Lemma inv_start_close : forall s m t c, Inv s m -> get_pc s t = Idle ->
  exists m', mon_run m (snd (start s t (OClose c))) = MOk m' /\ Inv (fst (start s t (OClose c))) m'.
Proof.
  intros s m t c HI Hidle. unfold start. rewrite Hidle.
  assert (G : forall ch, (forall ch0, lookup (chans s) c = Some ch0 -> True) -> c_q ch = [] -> c_closed ch = true ->
     Inv (set_chans s (update (chans s) c ch))
       {| m_pend := m_pend m; m_known := m_known m; m_pubs := m_pubs m; m_last := m_last m;
          m_dead := m_dead m; m_closed := c :: m_closed m; m_nsub := m_nsub m |}).
  { intros ch _ Hq Hcl. apply inv_mclosed.
    - apply inv_chans; [exact HI| | |].
      + intros c' mg q H. apply queued_update in H. destruct H as [[_ H]|[_ H]]; [rewrite Hq in H; destruct H|exact H].
      + intros c' ch' H. rewrite lookup_update in H. destruct (c =? c').
        * inversion H. subst. rewrite Hq. exact I.
        * exact (i_qsorted _ _ HI c' ch' H).
      + intros c' H. apply closed_update; [exact H|]. intros _. exact Hcl.
    - exists ch. split; [cbn; apply lookup_update_eq|exact Hcl]. }
  destruct (lookup (chans s) c) as [ch|]; cbn [fst snd mon_run mon_step]; eexists; (split; [reflexivity|]);
    apply G; auto.
Qed.

(** ---- receive ---- *)
Definition set_lastq (s : state) (l : list (Z * nat)) : state :=
  {| entries := entries s; next_id := next_id s; lock := lock s; chans := chans s;
     pcs := pcs s; npub := npub s; alloc := alloc s; lastq := l |}.

Lemma get_lastq_set : forall s id n id',
  get_lastq (set_lastq s (update (lastq s) id n)) id' = if id =? id' then n else get_lastq s id'.
Proof. intros. unfold get_lastq, set_lastq; cbn. rewrite lookup_update. destruct (id =? id'); reflexivity. Qed.

Lemma get_last_upd : forall m kn id n id',
  get_last {| m_pend := m_pend m; m_known := kn; m_pubs := m_pubs m; m_last := update (m_last m) id n;
              m_dead := m_dead m; m_closed := m_closed m; m_nsub := m_nsub m |} id' =
  if id =? id' then n else get_last m id'.
Proof. intros. unfold get_last; cbn. rewrite lookup_update. destruct (id =? id'); reflexivity. Qed.

Lemma inv_recv_state : forall s m id q kn p,
  Inv s m ->
  (q < npub s)%nat ->
  (forall c' mg' q', queued s c' mg' q' -> m_id mg' = id -> (q < q')%nat) ->
  (forall t tp' d rest pr, get_pc s t = PubFan tp' d rest pr -> In id (ids_of rest) -> (S q < npub s)%nat) ->
  (forall n, lookup (m_dead m) id = Some n -> (q < n)%nat) ->
  (forall id', match lookup kn id' with Some k => k_ret k | None => false end = is_returned m id') ->
  (forall id' k, lookup kn id' = Some k -> In (mk id' (k_topic k) (k_chan k)) (alloc s)) ->
  (p <= q)%nat ->
  Inv (set_lastq s (update (lastq s) id (S q)))
      {| m_pend := m_pend m; m_known := kn; m_pubs := m_pubs m; m_last := update (m_last m) id (S p);
         m_dead := m_dead m; m_closed := m_closed m; m_nsub := m_nsub m |}.
Proof.
  intros s m id q kn p HI Hq Hnewer Hfan Hdead Hret Hkn Hpq.
  set (m' := {| m_pend := m_pend m; m_known := kn; m_pubs := m_pubs m; m_last := update (m_last m) id (S p);
         m_dead := m_dead m; m_closed := m_closed m; m_nsub := m_nsub m |}).
  assert (Hret' : forall id', is_returned m' id' = is_returned m id') by (intro; apply Hret).
  constructor; try (unchanged HI).
  - intros c' mg' q' H. destruct (i_q _ _ HI c' mg' q' H) as [H1 [H2 H3]]. split; [exact H1|]. split; [exact H2|].
    rewrite get_lastq_set. destruct (id =? m_id mg') eqn:E; [|exact H3].
    assert (m_id mg' = id) by lia. pose proof (Hnewer _ _ _ H H0). lia.
  - intro id'. rewrite get_lastq_set. destruct (id =? id'); [cbn [npub set_lastq]; lia|exact (i_lastq _ _ HI id')].
  - intros t tp' d rest pr H id' Hin. destruct (i_fanq _ _ HI t tp' d rest pr H id' Hin) as [H1 H2].
    split; [|exact H2]. rewrite get_lastq_set. destruct (id =? id') eqn:E; [|exact H1].
    assert (id' = id) by lia. subst id'. pose proof (Hfan _ _ _ _ _ H Hin). cbn [npub set_lastq]. lia.
  - intro t. refine (pend_ok_frame s m _ m' t _ _ _ _ _ _ (i_pend _ _ HI t)); try reflexivity; try (intros; assumption);
      try (intros id' H; rewrite Hret'; exact H); try (cbn; lia).
  - exact Hkn.
  - intros e He. destruct (i_ret_or_pend _ _ HI e He) as [H|H]; [left; rewrite Hret'; exact H|right; exact H].
  - intros id' t tp c H. rewrite Hret' in H. exact (i_ret_excl _ _ HI id' t tp c H).
  - intro id'. rewrite get_lastq_set. unfold m'. rewrite get_last_upd.
    destruct (id =? id'); [lia|exact (i_last _ _ HI id')].
  - intros id' n H. destruct (i_dead _ _ HI id' n H) as [D1 [D2 [D3 [D4 [D5 D6]]]]].
    repeat split; try assumption. rewrite get_lastq_set. destruct (id =? id') eqn:E; [|exact D5].
    assert (id' = id) by lia. subst id'. pose proof (Hdead n H). lia.
Qed.

Definition recv_known (m : mstate) (c : Z) (mg : msg) : option (list (Z * known)) :=
  match lookup (m_known m) (m_id mg) with
  | Some k => if (k_topic k =? m_topic mg) && (k_chan k =? c) then Some (m_known m) else None
  | None => if pending_sub m (m_topic mg) c
            then Some (update (m_known m) (m_id mg) {| k_topic := m_topic mg; k_chan := c; k_ret := false |})
            else None
  end.

Lemma mon_recv : forall m c mg kn p,
  recv_known m c mg = Some kn ->
  find_from (m_pubs m) O (get_last m (m_id mg)) (m_topic mg, m_data mg) = Some p ->
  (forall n, lookup (m_dead m) (m_id mg) = Some n -> (p < n)%nat) ->
  mon_step m (ERecv c (Some mg)) =
  MOk {| m_pend := m_pend m; m_known := kn; m_pubs := m_pubs m; m_last := update (m_last m) (m_id mg) (S p);
         m_dead := m_dead m; m_closed := m_closed m; m_nsub := m_nsub m |}.
Proof.
  intros m c mg kn p Hk Hf Hd. unfold recv_known in Hk. unfold mon_step. rewrite Hk, Hf.
  destruct (lookup (m_dead m) (m_id mg)) as [n|]; [|reflexivity].
  pose proof (Hd n eq_refl). destruct (n <=? p)%nat eqn:E; [apply Nat.leb_le in E; lia|reflexivity].
Qed.

Lemma pending_sub_true : forall m t p tp c, lookup (m_pend m) t = Some p -> p_op p = OSub tp c ->
  pending_sub m tp c = true.
Proof.
  intros m t p tp c H Hop. unfold pending_sub. apply existsb_exists. exists (t, p).
  split; [apply lookup_In; exact H|]. cbn. rewrite Hop. lia.
Qed.

Lemma recv_known_ok : forall s m c mg, Inv s m -> In (mk (m_id mg) (m_topic mg) c) (alloc s) ->
  exists kn, recv_known m c mg = Some kn /\
    (forall id', match lookup kn id' with Some k => k_ret k | None => false end = is_returned m id') /\
    (forall id' k, lookup kn id' = Some k -> In (mk id' (k_topic k) (k_chan k)) (alloc s)).
Proof.
  intros s m c mg HI Ha. unfold recv_known. destruct (lookup (m_known m) (m_id mg)) as [k|] eqn:E.
  - pose proof (i_known _ _ HI _ _ E) as Hk.
    pose proof (nodup_ids_inj _ _ _ (i_alloc_nd _ _ HI) Hk Ha eq_refl) as Heq. inversion Heq as [[H1 H2]].
    rewrite !Z.eqb_refl. cbn. exists (m_known m). split; [reflexivity|]. split; [intro; reflexivity|].
    exact (i_known _ _ HI).
  - destruct (i_ret_or_pend _ _ HI _ Ha) as [H|[t H]].
    + cbn in H. unfold is_returned in H. rewrite E in H. discriminate.
    + cbn in H. pose proof (i_pend _ _ HI t) as Hp. unfold pend_ok in Hp.
      assert (Hps : pending_sub m (m_topic mg) c = true).
      { destruct H as [H|H]; rewrite H in Hp; destruct Hp as [p [Hp1 Hp2]]; eapply pending_sub_true; eauto. }
      rewrite Hps. eexists. split; [reflexivity|]. split.
      * intro id'. rewrite lookup_update. unfold is_returned. destruct (m_id mg =? id') eqn:E1; [|reflexivity].
        assert (id' = m_id mg) by lia. subst. rewrite E. reflexivity.
      * intros id' k Hl. rewrite lookup_update in Hl. destruct (m_id mg =? id') eqn:E1.
        -- inversion Hl. cbn. assert (id' = m_id mg) by lia. subst. exact Ha.
        -- exact (i_known _ _ HI _ _ Hl).
Qed.

Lemma inv_start_recv : forall s m t c, Inv s m -> get_pc s t = Idle ->
  exists m', mon_run m (snd (start s t (ORecv c))) = MOk m' /\ Inv (fst (start s t (ORecv c))) m'.
Proof.
  intros s m t c HI Hidle. unfold start. rewrite Hidle.
  destruct (lookup (chans s) c) as [ch|] eqn:E; [|exists m; split; [reflexivity|exact HI]].
  destruct (c_q ch) as [|[mg q] r] eqn:Eq; [exists m; split; [reflexivity|exact HI]|].
  cbn [fst snd mon_run].
  assert (Hqd : queued s c mg q) by (exists ch; split; [exact E|rewrite Eq; left; reflexivity]).
  destruct (i_q _ _ HI _ _ _ Hqd) as [Hq1 [Hq2 Hq3]].
  pose proof (i_pubs _ _ HI _ _ _ Hqd) as Hnth.
  pose proof (i_qsorted _ _ HI _ _ E) as Hsort. rewrite Eq in Hsort. destruct Hsort as [Hfa Hsr].
  set (ch' := {| c_cap := c_cap ch; c_q := r; c_closed := c_closed ch |}).
  assert (HI1 : Inv (set_chans s (update (chans s) c ch')) m).
  { apply inv_chans; [exact HI| | |].
    - intros c' mg' q' H. apply queued_update in H. destruct H as [[<- H]|[_ H]]; [|exact H].
      exists ch. split; [exact E|rewrite Eq; right; exact H].
    - intros c' ch0 H. rewrite lookup_update in H. destruct (c =? c').
      + inversion H. exact Hsr.
      + exact (i_qsorted _ _ HI c' ch0 H).
    - intros c' H. apply closed_update; [exact H|]. intros <-. destruct H as [ch0 [H1 H2]]. cbn. congruence. }
  destruct (recv_known_ok _ _ c mg HI Hq2) as [kn [Hk1 [Hk2 Hk3]]].
  destruct (find_from_spec (m_pubs m) O (get_last m (m_id mg)) (m_topic mg, m_data mg) q) as [p [Hf1 [Hf2 Hf3]]].
  { pose proof (i_last _ _ HI (m_id mg)). lia. }
  { lia. }
  { rewrite Nat.sub_0_r. exact Hnth. }
  assert (Hdead : forall n, lookup (m_dead m) (m_id mg) = Some n -> (q < n)%nat).
  { intros n H. destruct (i_dead _ _ HI _ _ H) as [_ [_ [_ [_ [_ D6]]]]]. exact (D6 _ _ _ Hqd eq_refl). }
  eexists. split.
  { rewrite (mon_recv m c mg kn p Hk1 Hf1); [reflexivity|]. intros n H. pose proof (Hdead n H). lia. }
  refine (inv_recv_state _ m (m_id mg) q kn p HI1 Hq1 _ _ Hdead Hk2 Hk3 Hf3).
  - intros c' mg' q' H Hid. apply queued_update in H. destruct H as [[<- H]|[Hne H]].
    + rewrite Forall_forall in Hfa. destruct (Hfa _ H) as [H1|[H1 H2]]; cbn in *; [exact H1|congruence].
    + exfalso. destruct (i_q _ _ HI _ _ _ H) as [_ [H2 _]].
      pose proof (nodup_ids_inj _ _ _ (i_alloc_nd _ _ HI) H2 Hq2 Hid) as Heq. inversion Heq. congruence.
  - intros t' tp' d rest pr H Hin.
    destruct (i_fanq _ _ HI t' tp' d rest pr H _ Hin) as [_ H2]. exact (H2 _ _ _ Hqd eq_refl).
Qed.

(** ---- taking the mutex (subscribe / unsubscribe / len / prune phase) ---- *)
Definition nonpub_acq (p p' : pc) : Prop :=
  match p with
  | SubWait id tp c => p' = SubHold id tp c
  | UnsubWait id => p' = UnsubHold id
  | LenWait => p' = LenHold
  | PruneWait pr => p' = PruneHold pr
  | _ => False
  end.

Lemma no_holder : forall s m t, Inv s m -> lock s = None -> holding (get_pc s t) = false.
Proof.
  intros s m t HI Hl. destruct (holding (get_pc s t)) eqn:E; [|reflexivity].
  apply (i_lock _ _ HI) in E. congruence.
Qed.

Lemma inv_acquire : forall s m t p', Inv s m -> lock s = None -> nonpub_acq (get_pc s t) p' ->
  Inv (set_pc (set_lock s (Some t)) t p') m.
Proof.
  intros s m t p' HI Hl Hacq.
  set (X := set_pc (set_lock s (Some t)) t p').
  assert (Hpcs : pcs X = update (pcs s) t p') by reflexivity.
  assert (Hh : holding p' = true) by (destruct (get_pc s t); cbn in Hacq; try tauto; subst p'; reflexivity).
  assert (Hsub : forall t' id tp c, sub_pending X t' id tp c <-> sub_pending s t' id tp c).
  { intros t' id tp c. destruct (Z.eq_dec t t') as [<-|Hne].
    - unfold sub_pending. rewrite (gp_eq _ s t p' Hpcs).
      destruct (get_pc s t); cbn in Hacq; try tauto; subst p'; split; intros [H|H]; try discriminate H;
        inversion H; subst; tauto.
    - apply (subp_neq _ s t p' t' id tp c Hpcs Hne). }
  assert (Hfan : forall t' tp d rest pr, get_pc X t' = PubFan tp d rest pr -> get_pc s t' = PubFan tp d rest pr).
  { intros t' tp d rest pr H. destruct (Z.eq_dec t t') as [<-|Hne].
    - exfalso. rewrite (gp_eq _ s t p' Hpcs) in H. destruct (get_pc s t); cbn in Hacq; try tauto; congruence.
    - rewrite (gp_neq _ s t p' t' Hpcs Hne) in H. exact H. }
  constructor; try (unchanged HI).
  - intro t'. cbn [lock X set_pc set_lock]. destruct (Z.eq_dec t t') as [<-|Hne].
    + rewrite (gp_eq _ s t p' Hpcs), Hh. tauto.
    + rewrite (gp_neq _ s t p' t' Hpcs Hne), (no_holder _ _ t' HI Hl). split; [discriminate|congruence].
  - intros t' id tp c H. apply Hsub in H. exact (i_subp _ _ HI _ _ _ _ H).
  - intros t1 t2 id tp c tp' c' H1 H2. apply Hsub in H1. apply Hsub in H2.
    exact (i_subp_uniq _ _ HI _ _ _ _ _ _ _ H1 H2).
  - intros t' tp d rest pr H. exact (i_fan _ _ HI t' tp d rest pr (Hfan _ _ _ _ _ H)).
  - intros t' tp d rest pr H. exact (i_fanq _ _ HI t' tp d rest pr (Hfan _ _ _ _ _ H)).
  - intro t'. destruct (Z.eq_dec t t') as [<-|Hne].
    + pose proof (i_pend _ _ HI t) as Hp. unfold pend_ok in *. rewrite (gp_eq _ s t p' Hpcs).
      destruct (get_pc s t); cbn in Hacq; try tauto; subst p'; exact Hp.
    + refine (pend_ok_frame s m X m t' _ _ _ _ _ _ (i_pend _ _ HI t')); try reflexivity; try (intros; assumption); try lia.
      apply (gp_neq _ s t p' t' Hpcs Hne).
  - intros e He. destruct (i_ret_or_pend _ _ HI e He) as [H|[t' H]]; [left; exact H|].
    right. exists t'. apply Hsub. exact H.
  - intros id t' tp c Hr H. apply Hsub in H. exact (i_ret_excl _ _ HI id t' tp c Hr H).
  - intros id n H. destruct (i_dead _ _ HI id n H) as [D1 [D2 D3]]. split; [exact D1|]. split; [|exact D3].
    intros t' tp c Hs. apply Hsub in Hs. exact (D2 t' tp c Hs).
Qed.

(** ---- a blocked poll ---- *)
Lemma holding_pend : forall s m h, Inv s m -> holding (get_pc s h) = true ->
  exists p, lookup (m_pend m) h = Some p.
Proof.
  intros s m h HI Hh. pose proof (i_pend _ _ HI h) as Hp. unfold pend_ok in Hp.
  destruct (get_pc s h); cbn in Hh; try discriminate Hh; destruct Hp as [p [Hp _]]; exists p; exact Hp.
Qed.

Lemma mon_blocked : forall s m t h, Inv s m -> lock s = Some h -> waiting (get_pc s t) = true ->
  mon_step m (EBlocked t) = MOk m.
Proof.
  intros s m t h HI Hl Hw.
  assert (Hh : holding (get_pc s h) = true) by (apply (i_lock _ _ HI); exact Hl).
  assert (Hne : h <> t) by (intros ->; destruct (get_pc s t); cbn in *; congruence).
  destruct (holding_pend _ _ _ HI Hh) as [p Hp].
  assert (Ho : other_pending m t = true).
  { unfold other_pending. apply existsb_exists. exists (h, p). split; [apply lookup_In; exact Hp|cbn; lia]. }
  unfold mon_step. destruct (lookup (m_pend m) t) as [p0|]; [|reflexivity].
  destruct (p_op p0); try reflexivity. rewrite Ho. reflexivity.
Qed.

(** ---- publish takes the mutex: its place in the publication order ---- *)
Lemma must_prune_spec : forall m tp id, In id (must_prune m tp) ->
  exists k, lookup (m_known m) id = Some k /\ k_ret k = true /\ k_topic k = tp /\ zmem (k_chan k) (m_closed m) = true.
Proof.
  intros m tp id H. unfold must_prune in H. apply filter_In in H. destruct H as [_ H].
  destruct (lookup (m_known m) id) as [k|]; [|discriminate]. exists k.
  apply andb_prop in H. destruct H as [H H3]. apply andb_prop in H. destruct H as [H1 H2].
  repeat split; try assumption. lia.
Qed.

Lemma inv_pub_acquire : forall s m t tp d, Inv s m -> lock s = None -> get_pc s t = PubWait tp d ->
  exists m', mon_run m (snd (step_task s t)) = MOk m' /\ Inv (fst (step_task s t)) m'.
Proof.
  intros s m t tp d HI Hl Hpc. unfold step_task. rewrite Hpc. cbn [acquired]. rewrite Hl. cbn [fst snd mon_run].
  pose proof (i_pend _ _ HI t) as Hp. unfold pend_ok in Hp. rewrite Hpc in Hp. destruct Hp as [p0 [Hp1 [Hp2 Hp3]]].
  set (p' := PubFan tp d (entries s) []).
  set (X := {| entries := entries (set_pc (set_lock s (Some t)) t p'); next_id := next_id (set_pc (set_lock s (Some t)) t p');
               lock := lock (set_pc (set_lock s (Some t)) t p'); chans := chans (set_pc (set_lock s (Some t)) t p');
               pcs := pcs (set_pc (set_lock s (Some t)) t p'); npub := S (npub (set_pc (set_lock s (Some t)) t p'));
               alloc := alloc (set_pc (set_lock s (Some t)) t p'); lastq := lastq (set_pc (set_lock s (Some t)) t p') |}).
  eexists. split.
  { unfold mon_step. rewrite Hp1, Hp2, Hp3. cbn [op_eqb negb andb]. rewrite !Z.eqb_refl. cbn [andb]. reflexivity. }
  assert (Hpcs : pcs X = update (pcs s) t p') by reflexivity.
  assert (Hsub : forall t' id tp' c, sub_pending X t' id tp' c <-> sub_pending s t' id tp' c).
  { intros t' id tp' c. destruct (Z.eq_dec t t') as [<-|Hne].
    - unfold sub_pending. rewrite (gp_eq _ s t p' Hpcs), Hpc. unfold p'. split; intros [H|H]; discriminate H.
    - apply (subp_neq _ s t p' t' id tp' c Hpcs Hne). }
  assert (Hfan : forall t' tp' d' rest pr, get_pc X t' = PubFan tp' d' rest pr ->
            t' = t /\ tp' = tp /\ d' = d /\ rest = entries s /\ pr = []).
  { intros t' tp' d' rest pr H. destruct (Z.eq_dec t t') as [<-|Hne].
    - rewrite (gp_eq _ s t p' Hpcs) in H. unfold p' in H. inversion H. tauto.
    - exfalso. rewrite (gp_neq _ s t p' t' Hpcs Hne) in H. pose proof (no_holder _ _ t' HI Hl) as Hn.
      rewrite H in Hn. discriminate. }
  constructor; try (unchanged HI).
  - intro t'. cbn [lock X set_pc set_lock]. destruct (Z.eq_dec t t') as [<-|Hne].
    + rewrite (gp_eq _ s t p' Hpcs). cbn. tauto.
    + rewrite (gp_neq _ s t p' t' Hpcs Hne), (no_holder _ _ t' HI Hl). split; [discriminate|congruence].
  - intros t' id tp' c H. apply Hsub in H. exact (i_subp _ _ HI _ _ _ _ H).
  - intros t1 t2 id tp1 c1 tp2 c2 H1 H2. apply Hsub in H1. apply Hsub in H2.
    exact (i_subp_uniq _ _ HI _ _ _ _ _ _ _ H1 H2).
  - intros t' tp' d' rest pr H. destruct (Hfan _ _ _ _ _ H) as [-> [-> [-> [-> ->]]]].
    split; [exact (i_ent_nd _ _ HI)|]. split; [apply incl_refl|]. split; [cbn; lia|].
    cbn [m_pubs npub X set_pc set_lock pred]. rewrite nth_error_app2 by (rewrite (i_pubs_len _ _ HI); lia).
    rewrite (i_pubs_len _ _ HI), Nat.sub_diag. reflexivity.
  - intros c mg q H. destruct (i_q _ _ HI c mg q H) as [H1 H2]. split; [cbn; lia|exact H2].
  - intro id. pose proof (i_lastq _ _ HI id). cbn [npub X]. cbn. cbn in H. unfold get_lastq in *. cbn. lia.
  - intros t' tp' d' rest pr H id Hin. destruct (Hfan _ _ _ _ _ H) as [-> [-> [-> [-> ->]]]]. split.
    + pose proof (i_lastq _ _ HI id). unfold get_lastq in *. cbn. lia.
    + intros c mg q Hq _. destruct (i_q _ _ HI c mg q Hq) as [H1 _]. cbn. lia.
  - intro t'. destruct (Z.eq_dec t t') as [<-|Hne].
    + unfold pend_ok. rewrite (gp_eq _ s t p' Hpcs). unfold p'. eexists. split; [cbn; apply lookup_update_eq|].
      cbn [p_op p_lin p_ids]. split; [exists tp, d; reflexivity|]. split; [reflexivity|].
      intros id Hin. destruct (must_prune_spec _ _ _ Hin) as [k [K1 [K2 [K3 K4]]]].
      split; [unfold is_returned; cbn; rewrite K1; exact K2|].
      destruct (in_dec Z.eq_dec id (ids_of (entries s))) as [Hi|Hi]; [|left; exact Hi].
      right. right. apply in_ids_of in Hi. destruct Hi as [e [He1 He2]]. exists e.
      pose proof (i_known _ _ HI _ _ K1) as Ha.
      pose proof (nodup_ids_inj _ _ _ (i_alloc_nd _ _ HI) (i_ent_alloc _ _ HI _ He1) Ha He2) as Heq.
      subst e. cbn. repeat split; try assumption. exact (i_closed _ _ HI _ K4).
    + refine (pend_ok_frame s m X _ t' _ _ _ _ _ _ (i_pend _ _ HI t')); try reflexivity; try (intros; assumption); try lia.
      * apply (gp_neq _ s t p' t' Hpcs Hne).
      * cbn. apply lookup_update_neq. exact Hne.
  - intros e He. destruct (i_ret_or_pend _ _ HI e He) as [H|[t' H]]; [left; exact H|].
    right. exists t'. apply Hsub. exact H.
  - intros id t' tp' c Hr H. apply Hsub in H. exact (i_ret_excl _ _ HI id t' tp' c Hr H).
  - cbn. rewrite app_length. cbn. rewrite (i_pubs_len _ _ HI). lia.
  - intros c mg q H. cbn [m_pubs]. destruct (i_q _ _ HI c mg q H) as [H1 _].
    rewrite nth_error_app1 by (rewrite (i_pubs_len _ _ HI); exact H1). exact (i_pubs _ _ HI c mg q H).
  - intros id n H. destruct (i_dead _ _ HI id n H) as [D1 [D2 [D3 [D4 [D5 D6]]]]].
    repeat split; try assumption.
    + intros t' tp' c Hs. apply Hsub in Hs. exact (D2 t' tp' c Hs).
    + cbn. lia.
Qed.

(** ---- subscribe's critical section: push, release, return the id ---- *)
Lemma lookup_remove_key : forall A (l : list (Z * A)) k k',
  lookup (remove_key l k) k' = if k =? k' then None else lookup l k'.
Proof.
  induction l as [|[k0 v0] r IH]; intros k k'; cbn.
  - destruct (k =? k'); reflexivity.
  - destruct (k0 =? k) eqn:E.
    + rewrite IH. destruct (k =? k') eqn:E1; [reflexivity|]. destruct (k0 =? k') eqn:E2; [lia|reflexivity].
    + cbn. destruct (k0 =? k') eqn:E2.
      * destruct (k =? k') eqn:E1; [lia|reflexivity].
      * apply IH.
Qed.

Definition m_after_sub (m : mstate) (t id tp c : Z) : mstate :=
  set_known (set_pend m (remove_key (m_pend m) t)) (update (m_known m) id {| k_topic := tp; k_chan := c; k_ret := true |}).

Lemma is_returned_after_sub : forall m t id tp c id',
  is_returned (m_after_sub m t id tp c) id' = if id =? id' then true else is_returned m id'.
Proof. intros. unfold is_returned, m_after_sub; cbn. rewrite lookup_update. destruct (id =? id'); reflexivity. Qed.

Lemma only_holder : forall s m t t', Inv s m -> holding (get_pc s t) = true -> holding (get_pc s t') = true -> t' = t.
Proof.
  intros s m t t' HI H1 H2. apply (i_lock _ _ HI) in H1. apply (i_lock _ _ HI) in H2. congruence.
Qed.

Lemma inv_sub_hold : forall s m t id tp c, Inv s m -> get_pc s t = SubHold id tp c ->
  exists m', mon_run m (snd (step_task s t)) = MOk m' /\ Inv (fst (step_task s t)) m'.
Proof.
  intros s m t id tp c HI Hpc. unfold step_task. rewrite Hpc. cbn [acquired fst snd mon_run].
  assert (Hsp : sub_pending s t id tp c) by (right; exact Hpc).
  destruct (i_subp _ _ HI _ _ _ _ Hsp) as [Ha Hne].
  assert (Hh : holding (get_pc s t) = true) by (rewrite Hpc; reflexivity).
  pose proof (i_pend _ _ HI t) as Hp. unfold pend_ok in Hp. rewrite Hpc in Hp. destruct Hp as [p0 [Hp1 Hp2]].
  exists (m_after_sub m t id tp c). split.
  { unfold mon_step. rewrite Hp1, Hp2. destruct (lookup (m_known m) id) as [k|] eqn:E; [|reflexivity].
    destruct (k_ret k) eqn:Er.
    - exfalso. apply (i_ret_excl _ _ HI id t tp c); [unfold is_returned; rewrite E; exact Er|exact Hsp].
    - pose proof (nodup_ids_inj _ _ _ (i_alloc_nd _ _ HI) (i_known _ _ HI _ _ E) Ha eq_refl) as Heq.
      inversion Heq as [[H1 H2]]. rewrite !Z.eqb_refl. reflexivity. }
  set (es := entries s ++ [{| e_id := id; e_topic := tp; e_chan := c |}]).
  set (X := release_to (set_entries s es) t Idle).
  assert (Hpcs : pcs X = update (pcs s) t Idle) by reflexivity.
  assert (Hnoh : forall t', t <> t' -> holding (get_pc s t') = false).
  { intros t' Hn. destruct (holding (get_pc s t')) eqn:E; [|reflexivity].
    exfalso. apply Hn. symmetry. exact (only_holder _ _ _ _ HI Hh E). }
  assert (Hsub : forall t' id' tp' c', sub_pending X t' id' tp' c' -> t <> t' /\ sub_pending s t' id' tp' c' /\ id' <> id).
  { intros t' id' tp' c' H. destruct (Z.eq_dec t t') as [<-|Hn].
    - exfalso. unfold sub_pending in H. rewrite (gp_eq _ s t Idle Hpcs) in H. destruct H; discriminate.
    - apply (subp_neq _ s t Idle t' id' tp' c' Hpcs Hn) in H. split; [exact Hn|]. split; [exact H|].
      intros ->. apply Hn. exact (i_subp_uniq _ _ HI _ _ _ _ _ _ _ Hsp H). }
  assert (Hfan : forall t' tp' d rest pr, get_pc X t' = PubFan tp' d rest pr -> False).
  { intros t' tp' d rest pr H. destruct (Z.eq_dec t t') as [<-|Hn].
    - rewrite (gp_eq _ s t Idle Hpcs) in H. discriminate.
    - rewrite (gp_neq _ s t Idle t' Hpcs Hn) in H. pose proof (Hnoh t' Hn) as Hf. rewrite H in Hf. discriminate. }
  assert (Hids : ids_of es = ids_of (entries s) ++ [id]) by (unfold es; rewrite ids_of_app; reflexivity).
  constructor; try (unchanged HI).
  - intro t'. cbn [lock X release_to set_pc set_lock]. destruct (Z.eq_dec t t') as [<-|Hn].
    + rewrite (gp_eq _ s t Idle Hpcs). cbn. split; discriminate.
    + rewrite (gp_neq _ s t Idle t' Hpcs Hn), (Hnoh t' Hn). split; discriminate.
  - cbn [entries alloc X release_to set_pc set_lock set_entries]. unfold es. apply incl_app; [exact (i_ent_alloc _ _ HI)|].
    intros e [<-|[]]. exact Ha.
  - cbn [entries X release_to set_pc set_lock set_entries]. rewrite Hids. apply NoDup_snoc; [exact (i_ent_nd _ _ HI)|exact Hne].
  - intros t' id' tp' c' H. destruct (Hsub _ _ _ _ H) as [Hn [H1 H2]].
    destruct (i_subp _ _ HI _ _ _ _ H1) as [H3 H4]. split; [exact H3|].
    cbn [entries X release_to set_pc set_lock set_entries]. rewrite Hids. rewrite in_app_iff. cbn. intros [H5|[H5|[]]]; [tauto|congruence].
  - intros t1 t2 id' tp1 c1 tp2 c2 H1 H2. destruct (Hsub _ _ _ _ H1) as [_ [H1' _]]. destruct (Hsub _ _ _ _ H2) as [_ [H2' _]].
    exact (i_subp_uniq _ _ HI _ _ _ _ _ _ _ H1' H2').
  - intros t' tp' d rest pr H. destruct (Hfan _ _ _ _ _ H).
  - intros t' tp' d rest pr H. destruct (Hfan _ _ _ _ _ H).
  - intro t'. destruct (Z.eq_dec t t') as [<-|Hn].
    + unfold pend_ok. rewrite (gp_eq _ s t Idle Hpcs). cbn. rewrite lookup_remove_key, Z.eqb_refl. reflexivity.
    + refine (pend_ok_frame s m X _ t' _ _ _ _ _ _ (i_pend _ _ HI t')); try reflexivity; try (intros; assumption); try lia.
      * apply (gp_neq _ s t Idle t' Hpcs Hn).
      * cbn. rewrite lookup_remove_key. destruct (t =? t') eqn:E; [lia|reflexivity].
      * intros id' H. rewrite is_returned_after_sub. rewrite H. destruct (id =? id'); reflexivity.
      * intros id' Hr H. cbn [entries X release_to set_pc set_lock set_entries]. rewrite Hids, in_app_iff. cbn.
        intros [H5|[H5|[]]]; [tauto|]. subst id'. exact (i_ret_excl _ _ HI id t tp c Hr Hsp).
  - intros id' k H. cbn in H. rewrite lookup_update in H. destruct (id =? id') eqn:E.
    + inversion H. cbn. assert (id' = id) by lia. subst. exact Ha.
    + exact (i_known _ _ HI _ _ H).
  - intros e He. rewrite is_returned_after_sub. destruct (id =? e_id e) eqn:E; [left; reflexivity|].
    destruct (i_ret_or_pend _ _ HI e He) as [H|[t' H]]; [left; exact H|]. right. exists t'.
    destruct (Z.eq_dec t t') as [<-|Hn].
    + exfalso. destruct H as [H|H]; rewrite Hpc in H; inversion H; lia.
    + apply (subp_neq _ s t Idle t' _ _ _ Hpcs Hn). exact H.
  - intros id' t' tp' c' Hr H. destruct (Hsub _ _ _ _ H) as [Hn [H1 H2]].
    rewrite is_returned_after_sub in Hr. destruct (id =? id') eqn:E; [lia|].
    exact (i_ret_excl _ _ HI id' t' tp' c' Hr H1).
  - intros id' n H. destruct (i_dead _ _ HI id' n H) as [D1 [D2 D3]]. split; [|split; [|exact D3]].
    + cbn [entries X release_to set_pc set_lock set_entries]. rewrite Hids, in_app_iff. cbn.
      intros [H5|[H5|[]]]; [tauto|]. subst id'. exact (D2 t tp c Hsp).
    + intros t' tp' c' Hs. destruct (Hsub _ _ _ _ Hs) as [_ [H1 _]]. exact (D2 t' tp' c' H1).
Qed.

(** ---- releasing the mutex (unsubscribe / len / publish / prune), entries may shrink ---- *)
Lemma incl_ids : forall a b, incl a b -> incl (ids_of a) (ids_of b).
Proof.
  intros a b H id Hi. apply in_ids_of in Hi. destruct Hi as [e [H1 H2]]. apply in_ids_of. exists e. split; [apply H; exact H1|exact H2].
Qed.

Lemma inv_release : forall s m t es' pn m',
  Inv s m -> holding (get_pc s t) = true -> (forall id tp c, get_pc s t <> SubHold id tp c) ->
  incl es' (entries s) -> NoDup (ids_of es') ->
  (pn = Idle \/ exists pr, pn = PruneWait pr) ->
  m_known m' = m_known m -> m_pubs m' = m_pubs m -> m_last m' = m_last m ->
  m_closed m' = m_closed m -> m_nsub m' = m_nsub m ->
  (forall t', t <> t' -> lookup (m_pend m') t' = lookup (m_pend m) t') ->
  pend_ok (release_to (set_entries s es') t pn) m' t ->
  blen (m_dead m) <= blen (m_dead m') -> NoDup (map fst (m_dead m')) ->
  (forall id n, lookup (m_dead m') id = Some n ->
     lookup (m_dead m) id = Some n \/ dead_ok (release_to (set_entries s es') t pn) id n) ->
  Inv (release_to (set_entries s es') t pn) m'.
Proof.
  intros s m t es' pn m' HI Hh Hnsh Hincl Hnd Hpn Hk Hpu Hla Hcl Hns Hpe Hpt Hdl Hdn Hd.
  set (X := release_to (set_entries s es') t pn) in *.
  assert (Hpcs : pcs X = update (pcs s) t pn) by reflexivity.
  assert (Hnoh : forall t', t <> t' -> holding (get_pc s t') = false).
  { intros t' Hn. destruct (holding (get_pc s t')) eqn:E; [|reflexivity].
    exfalso. apply Hn. symmetry. exact (only_holder _ _ _ _ HI Hh E). }
  assert (Hpnh : holding pn = false) by (destruct Hpn as [->|[pr ->]]; reflexivity).
  assert (Hsub : forall t' id tp c, sub_pending X t' id tp c <-> (t <> t' /\ sub_pending s t' id tp c)).
  { intros t' id tp c. destruct (Z.eq_dec t t') as [<-|Hn].
    - unfold sub_pending. rewrite (gp_eq _ s t pn Hpcs). split.
      + intros [H|H]; destruct Hpn as [->|[pr ->]]; discriminate H.
      + intros [H _]. tauto.
    - rewrite (subp_neq _ s t pn t' id tp c Hpcs Hn). tauto. }
  assert (Hsubt : forall id tp c, ~ sub_pending s t id tp c).
  { intros id tp c [H|H]; [rewrite H in Hh; discriminate|exact (Hnsh _ _ _ H)]. }
  assert (Hfan : forall t' tp d rest pr, get_pc X t' = PubFan tp d rest pr -> False).
  { intros t' tp d rest pr H. destruct (Z.eq_dec t t') as [<-|Hn].
    - rewrite (gp_eq _ s t pn Hpcs) in H. destruct Hpn as [->|[pr' ->]]; discriminate.
    - rewrite (gp_neq _ s t pn t' Hpcs Hn) in H. pose proof (Hnoh t' Hn) as Hf. rewrite H in Hf. discriminate. }
  assert (Hret : forall id, is_returned m' id = is_returned m id) by (intro; unfold is_returned; rewrite Hk; reflexivity).
  assert (Hent : forall id, ~ In id (ids_of (entries s)) -> ~ In id (ids_of es')).
  { intros id H H1. apply H. exact (incl_ids _ _ Hincl id H1). }
  constructor; try (unchanged HI).
  - intro t'. cbn [lock X release_to set_pc set_lock]. destruct (Z.eq_dec t t') as [<-|Hn].
    + rewrite (gp_eq _ s t pn Hpcs), Hpnh. split; discriminate.
    + rewrite (gp_neq _ s t pn t' Hpcs Hn), (Hnoh t' Hn). split; discriminate.
  - cbn [entries alloc X release_to set_pc set_lock set_entries]. intros e He. apply (i_ent_alloc _ _ HI). apply Hincl. exact He.
  - exact Hnd.
  - intros t' id tp c H. apply Hsub in H. destruct H as [_ H]. destruct (i_subp _ _ HI _ _ _ _ H) as [H1 H2].
    split; [exact H1|]. apply Hent. exact H2.
  - intros t1 t2 id tp1 c1 tp2 c2 H1 H2. apply Hsub in H1. apply Hsub in H2.
    exact (i_subp_uniq _ _ HI _ _ _ _ _ _ _ (proj2 H1) (proj2 H2)).
  - intros t' tp d rest pr H. destruct (Hfan _ _ _ _ _ H).
  - intros t' tp d rest pr H. destruct (Hfan _ _ _ _ _ H).
  - intro t'. destruct (Z.eq_dec t t') as [<-|Hn]; [exact Hpt|].
    refine (pend_ok_frame s m X m' t' _ _ _ _ _ _ (i_pend _ _ HI t')); try (intros; assumption).
    + apply (gp_neq _ s t pn t' Hpcs Hn).
    + apply Hpe. exact Hn.
    + intros id H. rewrite Hret. exact H.
    + intros id _ H. apply Hent. exact H.
  - rewrite Hk. exact (i_known _ _ HI).
  - intros e He. rewrite Hret. destruct (i_ret_or_pend _ _ HI e He) as [H|[t' H]]; [left; exact H|].
    right. exists t'. apply Hsub. split; [|exact H]. intros <-. exact (Hsubt _ _ _ H).
  - intros id t' tp c Hr H. rewrite Hret in Hr. apply Hsub in H. exact (i_ret_excl _ _ HI id t' tp c Hr (proj2 H)).
  - rewrite Hcl. exact (i_closed _ _ HI).
  - rewrite Hpu. exact (i_pubs_len _ _ HI).
  - rewrite Hpu. exact (i_pubs _ _ HI).
  - intro id. unfold get_last. rewrite Hla. exact (i_last _ _ HI id).
  - intros id n H. destruct (Hd id n H) as [H1|H1]; [|exact H1].
    destruct (i_dead _ _ HI id n H1) as [D1 [D2 D3]]. split; [apply Hent; exact D1|]. split; [|exact D3].
    intros t' tp c Hs. apply Hsub in Hs. exact (D2 t' tp c (proj2 Hs)).
  - exact Hdn.
  - rewrite Hns. exact (i_nsub _ _ HI).
Qed.

(** ---- helpers for the return events ---- *)
Lemma mark_dead_all_lookup : forall ids d n id',
  lookup (mark_dead_all d n ids) id' =
  match lookup d id' with Some x => Some x | None => if zmem id' ids then Some n else None end.
Proof.
  unfold mark_dead_all. induction ids as [|i r IH]; intros d n id'; cbn [fold_left].
  - cbn. destruct (lookup d id'); reflexivity.
  - rewrite IH, mark_dead_lookup. destruct (lookup d id') eqn:E; [reflexivity|].
    cbn [zmem existsb]. fold (zmem id' r). destruct (i =? id') eqn:E1.
    + replace (id' =? i) with true by lia. reflexivity.
    + replace (id' =? i) with false by lia. reflexivity.
Qed.

Lemma mark_dead_all_nodup : forall ids d n, NoDup (map fst d) -> NoDup (map fst (mark_dead_all d n ids)).
Proof.
  unfold mark_dead_all. induction ids as [|i r IH]; intros d n H; cbn [fold_left]; [exact H|].
  apply IH. apply mark_dead_nodup. exact H.
Qed.

Lemma mark_dead_all_len : forall ids d n, blen d <= blen (mark_dead_all d n ids).
Proof.
  unfold mark_dead_all. induction ids as [|i r IH]; intros d n; cbn [fold_left]; [lia|].
  pose proof (mark_dead_len d n i). pose proof (IH (mark_dead d n i) n). lia.
Qed.

Lemma In_lookup : forall A (l : list (Z * A)) k, In k (map fst l) -> exists v, lookup l k = Some v.
Proof.
  induction l as [|[k0 v0] r IH]; intros k H; cbn in *; [tauto|].
  destruct (k0 =? k) eqn:E; [eexists; reflexivity|]. destruct H as [H|H]; [lia|]. apply IH. exact H.
Qed.

Lemma NoDup_app_disj : forall A (a b : list A), NoDup a -> NoDup b -> (forall x, In x a -> ~ In x b) -> NoDup (a ++ b).
Proof.
  induction a as [|x r IH]; intros b Ha Hb Hd; cbn; [exact Hb|].
  inversion Ha; subst. constructor.
  - rewrite in_app_iff. intros [H|H]; [tauto|]. exact (Hd x (or_introl eq_refl) H).
  - apply IH; try assumption. intros y Hy. apply Hd. right. exact Hy.
Qed.

Lemma count_bound : forall s m, Inv s m -> blen (entries s) + blen (m_dead m) <= blen (alloc s).
Proof.
  intros s m HI.
  assert (H : NoDup (ids_of (entries s) ++ map fst (m_dead m))).
  { apply NoDup_app_disj; [exact (i_ent_nd _ _ HI)|exact (i_dead_nd _ _ HI)|].
    intros x Hx Hd. apply In_lookup in Hd. destruct Hd as [n Hn].
    destruct (i_dead _ _ HI _ _ Hn) as [D1 _]. exact (D1 Hx). }
  assert (Hi : incl (ids_of (entries s) ++ map fst (m_dead m)) (ids_of (alloc s))).
  { apply incl_app; [apply incl_ids; exact (i_ent_alloc _ _ HI)|].
    intros x Hd. apply In_lookup in Hd. destruct Hd as [n Hn].
    destruct (i_dead _ _ HI _ _ Hn) as [_ [_ [D3 _]]]. exact D3. }
  pose proof (NoDup_incl_length H Hi) as Hl. rewrite app_length in Hl.
  unfold blen, ids_of in *. rewrite !map_length in Hl. lia.
Qed.

Lemma filter_all_true : forall (f : entry -> bool) l, (forall e, In e l -> f e = true) -> filter f l = l.
Proof.
  induction l as [|x r IH]; intro H; cbn; [reflexivity|].
  rewrite (H x (or_introl eq_refl)). f_equal. apply IH. intros e He. apply H. right. exact He.
Qed.

Lemma dead_ok_intro : forall s m X id, Inv s m ->
  (is_returned m id = true \/ In id (ids_of (entries s))) ->
  ~ In id (ids_of (entries X)) ->
  (forall t' tp c, sub_pending X t' id tp c -> sub_pending s t' id tp c) ->
  alloc X = alloc s -> npub X = npub s -> lastq X = lastq s -> chans X = chans s ->
  dead_ok X id (npub s).
Proof.
  intros s m X id HI Hor Hni Hsub Ha Hn Hl Hc. unfold dead_ok. rewrite Ha, Hn.
  split; [exact Hni|]. split; [|split; [|split; [lia|split]]].
  - intros t' tp c Hs. apply Hsub in Hs. destruct Hor as [Hr|Hi].
    + exact (i_ret_excl _ _ HI id t' tp c Hr Hs).
    + destruct (i_subp _ _ HI _ _ _ _ Hs) as [_ H]. exact (H Hi).
  - destruct Hor as [Hr|Hi].
    + apply is_returned_known in Hr. destruct Hr as [k [Hk _]]. eapply in_mk_ids. exact (i_known _ _ HI _ _ Hk).
    + exact (incl_ids _ _ (i_ent_alloc _ _ HI) id Hi).
  - unfold get_lastq. rewrite Hl. exact (i_lastq _ _ HI id).
  - intros c mg q [ch [H1 H2]] _. rewrite Hc in H1. assert (Hq : queued s c mg q) by (exists ch; tauto).
    exact (proj1 (i_q _ _ HI _ _ _ Hq)).
Qed.

Lemma inv_len_hold : forall s m t, Inv s m -> get_pc s t = LenHold ->
  exists m', mon_run m (snd (step_task s t)) = MOk m' /\ Inv (fst (step_task s t)) m'.
Proof.
  intros s m t HI Hpc. unfold step_task. rewrite Hpc. cbn [acquired fst snd mon_run].
  pose proof (i_pend _ _ HI t) as Hp. unfold pend_ok in Hp. rewrite Hpc in Hp. destruct Hp as [p0 [Hp1 [Hp2 Hp3]]].
  exists (set_pend m (remove_key (m_pend m) t)). split.
  { unfold mon_step. rewrite Hp1, Hp2. pose proof (count_bound _ _ HI). rewrite (i_nsub _ _ HI).
    destruct (blen (entries s) + p_n p0 <=? blen (alloc s)) eqn:E; [reflexivity|lia]. }
  refine (inv_release s m t (entries s) Idle _ HI _ _ _ _ _ _ _ _ _ _ _ _ _ _ _); try reflexivity.
  - rewrite Hpc. reflexivity.
  - intros. rewrite Hpc. discriminate.
  - apply incl_refl.
  - exact (i_ent_nd _ _ HI).
  - left. reflexivity.
  - intros t' Hn. cbn. rewrite lookup_remove_key. destruct (t =? t') eqn:E; [lia|reflexivity].
  - unfold pend_ok. erewrite gp_eq by reflexivity. cbn. rewrite lookup_remove_key, Z.eqb_refl. reflexivity.
  - exact (i_dead_nd _ _ HI).
  - intros id n H. left. exact H.
Qed.

Lemma inv_unsub_hold : forall s m t id, Inv s m -> get_pc s t = UnsubHold id ->
  exists m', mon_run m (snd (step_task s t)) = MOk m' /\ Inv (fst (step_task s t)) m'.
Proof.
  intros s m t id HI Hpc. unfold step_task. rewrite Hpc. cbn [acquired fst snd mon_run].
  pose proof (i_pend _ _ HI t) as Hp. unfold pend_ok in Hp. rewrite Hpc in Hp. destruct Hp as [p0 [Hp1 [Hp2 Hp3]]].
  set (f := fun e => negb (e_id e =? id)).
  set (es := filter f (entries s)).
  set (removed := negb (blen es =? blen (entries s))).
  set (m0 := set_pend m (remove_key (m_pend m) t)).
  assert (Hcommon : forall m', m_known m' = m_known m -> m_pubs m' = m_pubs m -> m_last m' = m_last m ->
            m_closed m' = m_closed m -> m_nsub m' = m_nsub m -> m_pend m' = remove_key (m_pend m) t ->
            blen (m_dead m) <= blen (m_dead m') -> NoDup (map fst (m_dead m')) ->
            (forall id' n, lookup (m_dead m') id' = Some n ->
               lookup (m_dead m) id' = Some n \/ (id' = id /\ n = npub s /\ (removed = true \/ p_n p0 = 1))) ->
            Inv (release_to (set_entries s es) t Idle) m').
  { intros m' Hk Hpu Hla Hcl Hns Hpe Hdl Hdn Hd.
    apply (inv_release s m t es Idle m' HI); try assumption.
    - rewrite Hpc. reflexivity.
    - intros. rewrite Hpc. discriminate.
    - intros e He. apply filter_In in He. tauto.
    - apply filter_ids_nodup. exact (i_ent_nd _ _ HI).
    - left. reflexivity.
    - intros t' Hn. rewrite Hpe, lookup_remove_key. destruct (t =? t') eqn:E; [lia|reflexivity].
    - unfold pend_ok. erewrite gp_eq by reflexivity. rewrite Hpe, lookup_remove_key, Z.eqb_refl. reflexivity.
    - intros id' n H. destruct (Hd id' n H) as [H1|[-> [-> Hwhy]]]; [left; exact H1|right].
      apply (dead_ok_intro s m); try reflexivity; try exact HI.
      + destruct Hwhy as [Hr|Hn1]; [right|left; exact (Hp3 Hn1)].
        destruct (in_dec Z.eq_dec id (ids_of (entries s))) as [Hi|Hi]; [exact Hi|]. exfalso.
        assert (es = entries s).
        { apply filter_all_true. intros e He. unfold f. destruct (e_id e =? id) eqn:E; [|reflexivity].
          exfalso. apply Hi. apply in_ids_of. exists e. split; [exact He|lia]. }
        unfold removed in Hr. rewrite H0 in Hr. rewrite Z.eqb_refl in Hr. discriminate.
      + cbn. apply filter_ids_notin. intros e He. unfold f. rewrite He, Z.eqb_refl. reflexivity.
      + intros t' tp c Hs. destruct (Z.eq_dec t t') as [<-|Hn].
        * exfalso. unfold sub_pending in Hs. erewrite gp_eq in Hs by reflexivity. destruct Hs; discriminate.
        * exact (proj1 (subp_neq (release_to (set_entries s es) t Idle) s t Idle t' id tp c eq_refl Hn) Hs). }
  unfold mon_step. rewrite Hp1, Hp2. fold es. fold removed.
  destruct (removed || (p_n p0 =? 1)) eqn:Em.
  - eexists. split; [reflexivity|]. apply Hcommon; try reflexivity.
    + cbn. apply mark_dead_len.
    + cbn. apply mark_dead_nodup. exact (i_dead_nd _ _ HI).
    + intros id' n H. cbn in H. rewrite mark_dead_lookup in H. destruct (lookup (m_dead m) id') eqn:E; [left; exact H|].
      destruct (id =? id') eqn:E1; [|discriminate]. right. inversion H. split; [lia|]. split; [apply (i_pubs_len _ _ HI)|].
      destruct removed; [left; reflexivity|right]. cbn in Em. lia.
  - exists m0. split; [reflexivity|]. apply Hcommon; try reflexivity;
      try (exact (i_dead_nd _ _ HI)); try (intros id' n H; left; exact H).
Qed.

(** ---- publish returns (directly, or after its prune phase) ---- *)
Lemma inv_pub_return : forall s m t es' p,
  Inv s m -> holding (get_pc s t) = true -> (forall id tp c, get_pc s t <> SubHold id tp c) ->
  lookup (m_pend m) t = Some p -> (exists tp' d', p_op p = OPub tp' d') -> p_lin p = true ->
  (forall id, In id (p_ids p) -> is_returned m id = true /\ ~ In id (ids_of es')) ->
  incl es' (entries s) -> NoDup (ids_of es') ->
  exists m', mon_step m (ERet t RPub) = MOk m' /\ Inv (release_to (set_entries s es') t Idle) m'.
Proof.
  intros s m t es' p HI Hh Hns Hp1 [tp' [d' Hp2]] Hp3 Hids Hincl Hnd.
  eexists. split.
  { unfold mon_step. rewrite Hp1, Hp2, Hp3. reflexivity. }
  apply (inv_release s m t es' Idle _ HI); try assumption; try reflexivity.
  - left. reflexivity.
  - intros t' Hn. cbn. rewrite lookup_remove_key. destruct (t =? t') eqn:E; [lia|reflexivity].
  - unfold pend_ok. erewrite gp_eq by reflexivity. cbn. rewrite lookup_remove_key, Z.eqb_refl. reflexivity.
  - cbn. apply mark_dead_all_len.
  - cbn. apply mark_dead_all_nodup. exact (i_dead_nd _ _ HI).
  - intros id n H. cbn in H. rewrite mark_dead_all_lookup in H.
    destruct (lookup (m_dead m) id) eqn:E; [left; exact H|].
    destruct (zmem id (p_ids p)) eqn:Ez; [|discriminate]. right. inversion H.
    apply zmem_In in Ez. destruct (Hids id Ez) as [Hr Hni].
    rewrite (i_pubs_len _ _ HI).
    apply (dead_ok_intro s m); try reflexivity; try exact HI.
    + left. exact Hr.
    + exact Hni.
    + intros t' tp c Hs. destruct (Z.eq_dec t t') as [<-|Hn].
      * exfalso. unfold sub_pending in Hs. erewrite gp_eq in Hs by reflexivity. destruct Hs; discriminate.
      * exact (proj1 (subp_neq (release_to (set_entries s es') t Idle) s t Idle t' id tp c eq_refl Hn) Hs).
Qed.

Lemma inv_fan_done : forall s m t tp d pr, Inv s m -> get_pc s t = PubFan tp d [] pr ->
  exists m', mon_run m (snd (step_task s t)) = MOk m' /\ Inv (fst (step_task s t)) m'.
Proof.
  intros s m t tp d pr HI Hpc. unfold step_task. rewrite Hpc. cbn [acquired].
  pose proof (i_pend _ _ HI t) as Hp. unfold pend_ok in Hp. rewrite Hpc in Hp.
  destruct Hp as [p [Hp1 [Hp2 [Hp3 Hp4]]]].
  assert (Hh : holding (get_pc s t) = true) by (rewrite Hpc; reflexivity).
  assert (Hns : forall id tp c, get_pc s t <> SubHold id tp c) by (intros; rewrite Hpc; discriminate).
  destruct pr as [|x pr]; cbn [fst snd mon_run].
  - destruct (inv_pub_return s m t (entries s) p HI Hh Hns Hp1 Hp2 Hp3) as [m' [H1 H2]].
    + intros id Hin. destruct (Hp4 id Hin) as [Hr [H|[[]|[e [[] _]]]]]. tauto.
    + apply incl_refl.
    + exact (i_ent_nd _ _ HI).
    + exists m'. rewrite H1. split; [reflexivity|exact H2].
  - exists m. split; [reflexivity|].
    refine (inv_release s m t (entries s) (PruneWait (x :: pr)) m HI Hh Hns _ _ _ _ _ _ _ _ _ _ _ _ _); try reflexivity.
    + apply incl_refl.
    + exact (i_ent_nd _ _ HI).
    + right. eexists. reflexivity.
    + unfold pend_ok. erewrite gp_eq by reflexivity. exists p. split; [exact Hp1|]. split; [exact Hp2|]. split; [exact Hp3|].
      intros id Hin. destruct (Hp4 id Hin) as [Hr [H|[H|[e [[] _]]]]]; split; try assumption; [left|right; left]; assumption.
    + exact (i_dead_nd _ _ HI).
    + intros id n H. left. exact H.
Qed.

Lemma inv_prune_hold : forall s m t pr, Inv s m -> get_pc s t = PruneHold pr ->
  exists m', mon_run m (snd (step_task s t)) = MOk m' /\ Inv (fst (step_task s t)) m'.
Proof.
  intros s m t pr HI Hpc. unfold step_task. rewrite Hpc. cbn [acquired fst snd mon_run].
  pose proof (i_pend _ _ HI t) as Hp. unfold pend_ok in Hp. rewrite Hpc in Hp.
  destruct Hp as [p [Hp1 [Hp2 [Hp3 Hp4]]]].
  assert (Hh : holding (get_pc s t) = true) by (rewrite Hpc; reflexivity).
  assert (Hns : forall id tp c, get_pc s t <> SubHold id tp c) by (intros; rewrite Hpc; discriminate).
  set (f := fun e => negb (zmem (e_id e) pr)).
  destruct (inv_pub_return s m t (filter f (entries s)) p HI Hh Hns Hp1 Hp2 Hp3) as [m' [H1 H2]].
  - intros id Hin. destruct (Hp4 id Hin) as [Hr [H|[H|[e [[] _]]]]]; split; try assumption.
    + intro H0. apply H. eapply filter_ids_incl. exact H0.
    + apply filter_ids_notin. intros e He. unfold f. subst id. apply zmem_In in H. rewrite H. reflexivity.
  - intros e He. apply filter_In in He. tauto.
  - apply filter_ids_nodup. exact (i_ent_nd _ _ HI).
  - exists m'. rewrite H1. split; [reflexivity|exact H2].
Qed.

(** ---- one fan-out step ---- *)
Lemma inv_fan_move : forall s m t tp d e rest pr pr',
  Inv s m -> get_pc s t = PubFan tp d (e :: rest) pr ->
  incl pr pr' ->
  (e_topic e = tp -> closed_in s (e_chan e) -> In (e_id e) pr') ->
  Inv (set_pc s t (PubFan tp d rest pr')) m.
Proof.
  intros s m t tp d e rest pr pr' HI Hpc Hinc Hcl.
  set (p' := PubFan tp d rest pr').
  set (X := set_pc s t p').
  assert (Hpcs : pcs X = update (pcs s) t p') by reflexivity.
  assert (Hsub : forall t' id tp' c, sub_pending X t' id tp' c <-> sub_pending s t' id tp' c).
  { intros t' id tp' c. destruct (Z.eq_dec t t') as [<-|Hne].
    - unfold sub_pending. rewrite (gp_eq _ s t p' Hpcs), Hpc. unfold p'. split; intros [H|H]; discriminate H.
    - apply (subp_neq _ s t p' t' id tp' c Hpcs Hne). }
  destruct (i_fan _ _ HI _ _ _ _ _ Hpc) as [Hnd [Hincl [Hnp Hnth]]].
  assert (Hfan : forall t' tp' d' rest' pr1, get_pc X t' = PubFan tp' d' rest' pr1 ->
            (t' = t /\ tp' = tp /\ d' = d /\ rest' = rest) \/ (t <> t' /\ get_pc s t' = PubFan tp' d' rest' pr1)).
  { intros t' tp' d' rest' pr1 H. destruct (Z.eq_dec t t') as [<-|Hne].
    - left. rewrite (gp_eq _ s t p' Hpcs) in H. unfold p' in H. inversion H. tauto.
    - right. split; [exact Hne|]. rewrite (gp_neq _ s t p' t' Hpcs Hne) in H. exact H. }
  constructor; try (unchanged HI).
  - intro t'. cbn [lock X set_pc]. destruct (Z.eq_dec t t') as [<-|Hne].
    + rewrite (gp_eq _ s t p' Hpcs). pose proof (i_lock _ _ HI t) as H. rewrite Hpc in H. exact H.
    + rewrite (gp_neq _ s t p' t' Hpcs Hne). exact (i_lock _ _ HI t').
  - intros t' id tp' c H. apply Hsub in H. exact (i_subp _ _ HI _ _ _ _ H).
  - intros t1 t2 id tp1 c1 tp2 c2 H1 H2. apply Hsub in H1. apply Hsub in H2.
    exact (i_subp_uniq _ _ HI _ _ _ _ _ _ _ H1 H2).
  - intros t' tp' d' rest' pr1 H. destruct (Hfan _ _ _ _ _ H) as [[-> [-> [-> ->]]]|[Hne H1]].
    + split; [cbn in Hnd; inversion Hnd; assumption|]. split; [|split; assumption].
      intros x Hx. apply Hincl. right. exact Hx.
    + exact (i_fan _ _ HI _ _ _ _ _ H1).
  - intros t' tp' d' rest' pr1 H id Hin. destruct (Hfan _ _ _ _ _ H) as [[-> [-> [-> ->]]]|[Hne H1]].
    + apply (i_fanq _ _ HI _ _ _ _ _ Hpc). cbn. right. exact Hin.
    + exact (i_fanq _ _ HI _ _ _ _ _ H1 id Hin).
  - intro t'. destruct (Z.eq_dec t t') as [<-|Hne].
    + pose proof (i_pend _ _ HI t) as Hp. unfold pend_ok in *. rewrite (gp_eq _ s t p' Hpcs). rewrite Hpc in Hp. unfold p'.
      destruct Hp as [p [Hp1 [Hp2 [Hp3 Hp4]]]]. exists p. split; [exact Hp1|]. split; [exact Hp2|]. split; [exact Hp3|].
      intros id Hin. destruct (Hp4 id Hin) as [Hr [H|[H|[e0 [[<-|H1] [H2 [H3 H4]]]]]]]; split; try assumption.
      * left. exact H.
      * right. left. apply Hinc. exact H.
      * right. left. subst id. apply Hcl; assumption.
      * right. right. exists e0. tauto.
    + refine (pend_ok_frame s m X m t' _ _ _ _ _ _ (i_pend _ _ HI t')); try reflexivity; try (intros; assumption); try lia.
      apply (gp_neq _ s t p' t' Hpcs Hne).
  - intros e0 He. destruct (i_ret_or_pend _ _ HI e0 He) as [H|[t' H]]; [left; exact H|].
    right. exists t'. apply Hsub. exact H.
  - intros id t' tp' c Hr H. apply Hsub in H. exact (i_ret_excl _ _ HI id t' tp' c Hr H).
  - intros id n H. destruct (i_dead _ _ HI id n H) as [D1 [D2 D3]]. split; [exact D1|]. split; [|exact D3].
    intros t' tp' c Hs. apply Hsub in Hs. exact (D2 t' tp' c Hs).
Qed.

Lemma inv_enqueue : forall s m t tp d rest pr e ch,
  Inv s m -> get_pc s t = PubFan tp d rest pr ->
  In e (entries s) -> e_topic e = tp -> ~ In (e_id e) (ids_of rest) ->
  lookup (chans s) (e_chan e) = Some ch -> c_closed ch = false ->
  (get_lastq s (e_id e) < npub s)%nat ->
  (forall c mg q, queued s c mg q -> m_id mg = e_id e -> (S q < npub s)%nat) ->
  Inv (set_chans s (update (chans s) (e_chan e)
        {| c_cap := c_cap ch;
           c_q := c_q ch ++ [({| m_id := e_id e; m_topic := tp; m_data := d |}, pred (npub s))];
           c_closed := false |})) m.
Proof.
  intros s m t tp d rest pr e ch HI Hpc Hin Htp Hnr Hch Hop Hlq Hold.
  set (mg0 := {| m_id := e_id e; m_topic := tp; m_data := d |}).
  set (ch' := {| c_cap := c_cap ch; c_q := c_q ch ++ [(mg0, pred (npub s))]; c_closed := false |}).
  set (X := set_chans s (update (chans s) (e_chan e) ch')).
  destruct (i_fan _ _ HI _ _ _ _ _ Hpc) as [Hnd [Hincl [Hnp Hnth]]].
  assert (Hq : forall c' mg q, queued X c' mg q ->
            queued s c' mg q \/ (c' = e_chan e /\ mg = mg0 /\ q = pred (npub s))).
  { intros c' mg q H. apply queued_update in H. destruct H as [[<- H]|[_ H]]; [|left; exact H].
    cbn in H. apply in_app_or in H. destruct H as [H|[H|[]]].
    - left. exists ch. tauto.
    - right. inversion H. tauto. }
  assert (Hcl : forall c', closed_in s c' -> closed_in X c').
  { intros c' H. apply closed_update; [exact H|]. intros <-. destruct H as [ch0 [H1 H2]]. congruence. }
  assert (He : e = mk (e_id e) tp (e_chan e)) by (destruct e; cbn in *; subst; reflexivity).
  constructor; try (unchanged HI).
  - intros c' mg q H. destruct (Hq _ _ _ H) as [H1|[-> [-> ->]]]; [exact (i_q _ _ HI _ _ _ H1)|].
    cbn [npub X set_chans m_id m_topic mg0]. split; [lia|]. split; [|unfold get_lastq in *; cbn; lia].
    rewrite <- He. apply (i_ent_alloc _ _ HI). exact Hin.
  - intros c' ch0 H. cbn in H. rewrite lookup_update in H. destruct (e_chan e =? c') eqn:E.
    + inversion H. cbn. apply qsorted_app; [exact (i_qsorted _ _ HI _ _ Hch)|].
      apply Forall_forall. intros [mg q] Hx.
      assert (Hqs : queued s (e_chan e) mg q) by (exists ch; tauto).
      destruct (i_q _ _ HI _ _ _ Hqs) as [Hlt _]. unfold qR. cbn.
      destruct (Nat.eq_dec q (pred (npub s))) as [->|Hne]; [|left; lia].
      right. split; [reflexivity|]. intro Hid. pose proof (Hold _ _ _ Hqs Hid). lia.
    + exact (i_qsorted _ _ HI c' ch0 H).
  - intros t' tp' d' rest' pr' H id Hid. destruct (i_fanq _ _ HI t' tp' d' rest' pr' H id Hid) as [H1 H2].
    split; [exact H1|]. intros c' mg q Hqq Hm. destruct (Hq _ _ _ Hqq) as [H3|[-> [-> ->]]]; [exact (H2 _ _ _ H3 Hm)|].
    exfalso. cbn in Hm. subst id.
    assert (t' = t).
    { apply (only_holder _ _ t t' HI); [rewrite Hpc; reflexivity|]. change (get_pc X t') with (get_pc s t') in H. rewrite H. reflexivity. }
    subst t'. change (get_pc X t) with (get_pc s t) in H. rewrite Hpc in H. inversion H. subst. exact (Hnr Hid).
  - intro t'. refine (pend_ok_frame s m X m t' _ _ _ _ _ _ (i_pend _ _ HI t')); try reflexivity; try (intros; assumption); try lia.
    exact Hcl.
  - intros c' H. apply Hcl. exact (i_closed _ _ HI c' H).
  - intros c' mg q H. destruct (Hq _ _ _ H) as [H1|[-> [-> ->]]]; [exact (i_pubs _ _ HI _ _ _ H1)|]. exact Hnth.
  - intros id n H. destruct (i_dead _ _ HI id n H) as [D1 [D2 [D3 [D4 [D5 D6]]]]].
    repeat split; try assumption. intros c' mg q Hqq Hm. destruct (Hq _ _ _ Hqq) as [H3|[-> [-> ->]]]; [exact (D6 _ _ _ H3 Hm)|].
    exfalso. cbn in Hm. subst id. apply D1. apply in_ids_of. exists e. tauto.
Qed.

Lemma inv_fan_step : forall s m t tp d e rest pr, Inv s m -> get_pc s t = PubFan tp d (e :: rest) pr ->
  snd (step_task s t) = [] /\ Inv (fst (step_task s t)) m.
Proof.
  intros s m t tp d e rest pr HI Hpc. unfold step_task. rewrite Hpc. cbn [acquired].
  destruct (i_fan _ _ HI _ _ _ _ _ Hpc) as [Hnd [Hincl [Hnp Hnth]]].
  destruct (e_topic e =? tp) eqn:Etp.
  2:{ cbn [fst snd]. split; [reflexivity|]. apply (inv_fan_move s m t tp d e rest pr pr HI Hpc); [apply incl_refl|]. intros; lia. }
  assert (Htp : e_topic e = tp) by lia.
  unfold try_send. destruct (lookup (chans s) (e_chan e)) as [ch|] eqn:Ech.
  2:{ cbn [fst snd]. split; [reflexivity|]. apply (inv_fan_move s m t tp d e rest pr _ HI Hpc); [apply incl_appl; apply incl_refl|].
      intros _ _. apply in_or_app. right. left. reflexivity. }
  destruct (c_closed ch) eqn:Ecl.
  { cbn [fst snd]. split; [reflexivity|]. apply (inv_fan_move s m t tp d e rest pr _ HI Hpc); [apply incl_appl; apply incl_refl|].
    intros _ _. apply in_or_app. right. left. reflexivity. }
  assert (Hncl : ~ closed_in s (e_chan e)) by (intros [ch0 [H1 H2]]; congruence).
  assert (HI1 : Inv (set_pc s t (PubFan tp d rest pr)) m).
  { apply (inv_fan_move s m t tp d e rest pr pr HI Hpc); [apply incl_refl|]. intros _ H. destruct (Hncl H). }
  destruct (blen (c_q ch) <? c_cap ch); cbn [fst snd]; (split; [reflexivity|]); [|exact HI1].
  destruct (i_fanq _ _ HI _ _ _ _ _ Hpc (e_id e) (or_introl eq_refl)) as [Hlq Hold].
  pose proof (inv_enqueue (set_pc s t (PubFan tp d rest pr)) m t tp d rest pr e ch HI1) as H.
  apply H; clear H.
  - erewrite gp_eq by reflexivity. reflexivity.
  - apply Hincl. left. reflexivity.
  - exact Htp.
  - cbn in Hnd. inversion Hnd. assumption.
  - exact Ech.
  - exact Ecl.
  - exact Hlq.
  - exact Hold.
Qed.

(** ---- every step preserves the invariant and is accepted by the monitor ---- *)
Lemma mon_run_one : forall m e m', mon_step m e = MOk m' -> mon_run m [e] = MOk m'.
Proof. intros m e m' H. cbn. rewrite H. reflexivity. Qed.

Lemma mon_run_app : forall a b m,
  mon_run m (a ++ b) = match mon_run m a with MOk m1 => mon_run m1 b | MBad c => MBad c end.
Proof.
  induction a as [|e a IH]; intros b m; cbn; [reflexivity|].
  destruct (mon_step m e); [apply IH|reflexivity].
Qed.

Lemma start_inv : forall s m t o, Inv s m ->
  exists m', mon_run m (snd (start s t o)) = MOk m' /\ Inv (fst (start s t o)) m'.
Proof.
  intros s m t o HI.
  destruct (get_pc s t) eqn:Hpc;
    try (exists m; unfold start; rewrite Hpc; split; [reflexivity|exact HI]).
  destruct o as [c cap|tp c|id|tp d| |c|c].
  - exists m. split; [|apply inv_start_chan; exact HI].
    unfold start. rewrite Hpc. destruct (lookup (chans s) c); reflexivity.
  - destruct (inv_start_sub s m t tp c HI Hpc) as [m' [H1 H2]]. exists m'. split; [|exact H2].
    unfold start. rewrite Hpc. cbn [snd]. apply mon_run_one. exact H1.
  - destruct (inv_start_wait s m t (OUnsub id) _ HI Hpc eq_refl) as [m' [H1 H2]]. exists m'.
    unfold start. rewrite Hpc. cbn [fst snd]. split; [apply mon_run_one; exact H1|exact H2].
  - destruct (inv_start_wait s m t (OPub tp d) _ HI Hpc eq_refl) as [m' [H1 H2]]. exists m'.
    unfold start. rewrite Hpc. cbn [fst snd]. split; [apply mon_run_one; exact H1|exact H2].
  - destruct (inv_start_wait s m t OLen _ HI Hpc eq_refl) as [m' [H1 H2]]. exists m'.
    unfold start. rewrite Hpc. cbn [fst snd]. split; [apply mon_run_one; exact H1|exact H2].
  - apply inv_start_recv; assumption.
  - apply inv_start_close; assumption.
Qed.

Lemma wait_step_inv : forall s m t p', Inv s m -> waiting (get_pc s t) = true ->
  acquired s (get_pc s t) = Some p' ->
  (forall tp d, get_pc s t <> PubWait tp d) -> nonpub_acq (get_pc s t) p' ->
  exists m', mon_run m (snd (step_task s t)) = MOk m' /\ Inv (fst (step_task s t)) m'.
Proof.
  intros s m t p' HI Hw Ha Hnp Hacq. unfold step_task. rewrite Ha.
  destruct (lock s) as [h|] eqn:Hl.
  - exists m. cbn [fst snd]. split; [|exact HI]. apply mon_run_one. exact (mon_blocked s m t h HI Hl Hw).
  - exists m. destruct (get_pc s t) eqn:Hpc; try (exfalso; eapply Hnp; reflexivity);
      cbn [fst snd]; (split; [reflexivity|]); apply inv_acquire; try assumption; rewrite Hpc; exact Hacq.
Qed.

Lemma step_task_inv : forall s m t, Inv s m ->
  exists m', mon_run m (snd (step_task s t)) = MOk m' /\ Inv (fst (step_task s t)) m'.
Proof.
  intros s m t HI.
  destruct (get_pc s t) as [ |id tp c|id tp c|id|id| | |tp d|tp d rest pr|pr|pr] eqn:Hpc.
  - exists m. rewrite (step_task_idle s t Hpc). split; [reflexivity|exact HI].
  - apply (wait_step_inv s m t (SubHold id tp c) HI); rewrite Hpc; try reflexivity. intros; discriminate.
  - eapply inv_sub_hold; eassumption.
  - apply (wait_step_inv s m t (UnsubHold id) HI); rewrite Hpc; try reflexivity. intros; discriminate.
  - eapply inv_unsub_hold; eassumption.
  - apply (wait_step_inv s m t LenHold HI); rewrite Hpc; try reflexivity. intros; discriminate.
  - eapply inv_len_hold; eassumption.
  - destruct (lock s) as [h|] eqn:Hl.
    + exists m. unfold step_task. rewrite Hpc. cbn [acquired]. rewrite Hl. cbn [fst snd]. split; [|exact HI].
      apply mon_run_one. apply (mon_blocked s m t h HI Hl). rewrite Hpc. reflexivity.
    + eapply inv_pub_acquire; eassumption.
  - destruct rest as [|e rest].
    + eapply inv_fan_done; eassumption.
    + destruct (inv_fan_step s m t tp d e rest pr HI Hpc) as [H1 H2]. exists m. rewrite H1. split; [reflexivity|exact H2].
  - apply (wait_step_inv s m t (PruneHold pr) HI); rewrite Hpc; try reflexivity. intros; discriminate.
  - eapply inv_prune_hold; eassumption.
Qed.

Lemma step_inv : forall s m e, Inv s m ->
  exists m', mon_run m (snd (step s e)) = MOk m' /\ Inv (fst (step s e)) m'.
Proof. intros s m [t o|t] HI; [apply start_inv|apply step_task_inv]; exact HI. Qed.

Lemma run_from_inv : forall sched s m, Inv s m ->
  exists m', mon_run m (snd (run_from s sched)) = MOk m' /\ Inv (fst (run_from s sched)) m'.
Proof.
  induction sched as [|e r IH]; intros s m HI; cbn [run_from].
  - exists m. split; [reflexivity|exact HI].
  - destruct (step_inv s m e HI) as [m1 [H1 H2]]. destruct (step s e) as [s1 o1]. cbn [fst snd] in *.
    destruct (IH s1 m1 H2) as [m2 [H3 H4]]. destruct (run_from s1 r) as [s2 o2]. cbn [fst snd] in *.
    exists m2. split; [|exact H4]. rewrite mon_run_app, H1. exact H3.
Qed.

(** Headline: on every schedule the model's own trace satisfies the monitor. *)
Theorem run_ok : forall sched, ok_C20 (run sched) = true.
Proof.
  intro sched. unfold ok_C20, mon_code, run.
  destruct (run_from_inv sched init m_init inv_init) as [m' [H _]]. rewrite H. reflexivity.
Qed.

(** every reachable state satisfies the invariant, coupled with the monitor state *)
Theorem reachable_inv : forall sched, exists m,
  mon_run m_init (run sched) = MOk m /\ Inv (fst (run_from init sched)) m.
Proof. intro sched. exact (run_from_inv sched init m_init inv_init). Qed.

(** ---- corollaries stated on reachable states ---- *)
Definition reach (sched : list sev) : state := fst (run_from init sched).

Lemma reach_blocked_by_holder : forall sched t, blocked (reach sched) t = true ->
  exists h, h <> t /\ lock (reach sched) = Some h /\ holding (get_pc (reach sched) h) = true /\
            waiting (get_pc (reach sched) t) = true.
Proof.
  intros sched t Hb. destruct (reachable_inv sched) as [m [_ HI]]. fold (reach sched) in HI.
  unfold blocked in Hb. apply andb_prop in Hb. destruct Hb as [Hw Hl].
  destruct (lock (reach sched)) as [h|] eqn:E; [|discriminate]. exists h.
  assert (Hh : holding (get_pc (reach sched) h) = true) by (apply (i_lock _ _ HI); exact E).
  split; [|tauto]. intros ->. destruct (get_pc (reach sched) t); cbn in *; congruence.
Qed.

Lemma reach_delivery : forall sched, exists m,
  mon_run m_init (run sched) = MOk m /\
  length (m_pubs m) = npub (reach sched) /\
  (forall c mg q, queued (reach sched) c mg q ->
     nth_error (m_pubs m) q = Some (m_topic mg, m_data mg) /\
     In (mk (m_id mg) (m_topic mg) c) (alloc (reach sched)) /\
     (get_lastq (reach sched) (m_id mg) <= q)%nat) /\
  (forall c ch, lookup (chans (reach sched)) c = Some ch -> qsorted (c_q ch)).
Proof.
  intro sched. destruct (reachable_inv sched) as [m [H HI]]. fold (reach sched) in HI. exists m.
  split; [exact H|]. split; [exact (i_pubs_len _ _ HI)|]. split; [|exact (i_qsorted _ _ HI)].
  intros c mg q Hq. split; [exact (i_pubs _ _ HI _ _ _ Hq)|]. destruct (i_q _ _ HI _ _ _ Hq) as [_ H2]. exact H2.
Qed.

Lemma reach_unique_ids : forall sched,
  NoDup (ids_of (alloc (reach sched))) /\ NoDup (ids_of (entries (reach sched))) /\
  incl (entries (reach sched)) (alloc (reach sched)) /\
  (forall e, In e (alloc (reach sched)) -> 0 <= e_id e < next_id (reach sched)).
Proof.
  intro sched. destruct (reachable_inv sched) as [m [_ HI]]. fold (reach sched) in HI.
  split; [exact (i_alloc_nd _ _ HI)|]. split; [exact (i_ent_nd _ _ HI)|]. split; [exact (i_ent_alloc _ _ HI)|].
  intros e He. split; [|exact (i_alloc_lt _ _ HI e He)].
  (* ids are allocated from 0 upwards *)
  revert e He. unfold reach. clear HI m.
  assert (G : forall sc s, (forall e, In e (alloc s) -> 0 <= e_id e) -> 0 <= next_id s ->
              (forall e, In e (alloc (fst (run_from s sc))) -> 0 <= e_id e) /\ 0 <= next_id (fst (run_from s sc))).
  { induction sc as [|ev r IH]; intros s Ha Hn; cbn [run_from]; [cbn; tauto|].
    destruct (step s ev) as [s1 o1] eqn:Es. specialize (IH s1).
    assert (Hs1 : (forall e, In e (alloc s1) -> 0 <= e_id e) /\ 0 <= next_id s1).
    { destruct ev as [t o|t]; cbn [step] in Es.
      - unfold start in Es. destruct (get_pc s t); try (inversion Es; subst; tauto).
        destruct o; try (inversion Es; subst; cbn; tauto).
        + destruct (lookup (chans s) c); inversion Es; subst; cbn; tauto.
        + inversion Es; subst; cbn. split; [|lia]. intros e He. apply in_app_or in He. destruct He as [He|[<-|[]]]; [auto|cbn; lia].
        + destruct (lookup (chans s) c) as [ch|]; [destruct (c_q ch) as [|[mg q] rr]|]; inversion Es; subst; cbn; tauto.
        + destruct (lookup (chans s) c); inversion Es; subst; cbn; tauto.
      - unfold step_task in Es. destruct (get_pc s t) as [ |id tp c|id tp c|id|id| | |tp d|tp d rest pr|pr|pr]; cbn [acquired] in Es;
          try (destruct (lock s); inversion Es; subst; cbn; tauto); try (inversion Es; subst; cbn; tauto).
        destruct rest as [|e0 rest]; [destruct pr; inversion Es; subst; cbn; tauto|].
        destruct (e_topic e0 =? tp); [destruct (try_send _ _ _) as [[ | | ] cs]|]; inversion Es; subst; cbn; tauto. }
    destruct Hs1 as [H1 H2]. destruct (IH H1 H2) as [H3 H4]. destruct (run_from s1 r). cbn [fst] in *. tauto. }
  destruct (G sched init) as [H _]; [intros e []|cbn; lia|]. exact H.
Qed.

Lemma reach_dead : forall sched, exists m,
  mon_run m_init (run sched) = MOk m /\
  forall id n, lookup (m_dead m) id = Some n -> dead_ok (reach sched) id n.
Proof.
  intro sched. destruct (reachable_inv sched) as [m [H HI]]. fold (reach sched) in HI. exists m.
  split; [exact H|exact (i_dead _ _ HI)].
Qed.

Lemma reach_count : forall sched, exists m,
  mon_run m_init (run sched) = MOk m /\
  blen (entries (reach sched)) + blen (m_dead m) <= blen (alloc (reach sched)).
Proof.
  intro sched. destruct (reachable_inv sched) as [m [H HI]]. fold (reach sched) in HI. exists m.
  split; [exact H|exact (count_bound _ _ HI)].
Qed.

Lemma run_calls_ok : forall l, ok_C20 (run_calls init l) = true.
Proof. intro l. rewrite run_calls_is_run. apply run_ok. Qed.
