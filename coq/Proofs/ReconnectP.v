(** ReconnectP.v — lemmas about ReconnectionState, is_timed_out and the resets. *)
From Coq Require Import ZifyBool.
From Srtla Require Import Base Constants Reconnect.
Local Open Scope Z_scope.
Ltac Zify.zify_post_hook ::= Z.div_mod_to_equations.

Lemma ssub_ge : forall a b c, 0 < c -> (c <=? ssub a b) = true -> c <= a - b.
Proof. intros a b c Hc H. unfold ssub in H. lia. Qed.

Lemma ssub_of_ge : forall a b c, c <= a - b -> (c <=? ssub a b) = true.
Proof. intros. unfold ssub. lia. Qed.

(** ---- backoff_delay ---- *)
Lemma backoff_cases : forall r, 0 <= r_fail r ->
  backoff_delay r = 5000 \/ backoff_delay r = 10000 \/ backoff_delay r = 20000 \/
  backoff_delay r = 40000 \/ backoff_delay r = 80000 \/ backoff_delay r = 120000.
Proof.
  intros r H. unfold backoff_delay.
  change MAX_BACKOFF_COUNT with 5. change BASE_RECONNECT_DELAY_MS with 5000.
  change MAX_BACKOFF_DELAY_MS with 120000.
  assert (C : Z.min (r_fail r) 5 = 0 \/ Z.min (r_fail r) 5 = 1 \/ Z.min (r_fail r) 5 = 2 \/
              Z.min (r_fail r) 5 = 3 \/ Z.min (r_fail r) 5 = 4 \/ Z.min (r_fail r) 5 = 5) by lia.
  destruct C as [C|[C|[C|[C|[C|C]]]]]; rewrite C; vm_compute; tauto.
Qed.

Lemma backoff_bounds : forall r, 0 <= r_fail r -> 5000 <= backoff_delay r <= 120000.
Proof. intros r H. destruct (backoff_cases r H) as [C|[C|[C|[C|[C|C]]]]]; rewrite C; lia. Qed.

(** without the sign premise the cap still holds (the product is clamped, then min'ed) *)
Lemma backoff_cap : forall r, backoff_delay r <= 120000.
Proof. intros r. unfold backoff_delay. change MAX_BACKOFF_DELAY_MS with 120000. lia. Qed.

Lemma backoff_ladder : forall l e g,
  map (fun k => backoff_delay (RC l k e g)) [0; 1; 2; 3; 4; 5; 6; 100] =
  [5000; 10000; 20000; 40000; 80000; 120000; 120000; 120000].
Proof. intros. vm_compute. reflexivity. Qed.

(** ---- should_attempt ---- *)
Lemma should_attempt_spacing : forall r now, 0 <= r_fail r ->
  should_attempt r now = true ->
  r_last r = 0 \/ (if r_est r =? 0 then 1000 else 5000) <= now - r_last r.
Proof.
  intros r now Hf H. unfold should_attempt in H.
  change INITIAL_RETRY_CADENCE_MS with 1000 in H.
  destruct (r_est r =? 0) eqn:E.
  - destruct (now <=? r_grace r); [discriminate|].
    destruct (r_last r =? 0) eqn:L; [left; lia|right]. apply ssub_ge in H; lia.
  - destruct (r_last r =? 0) eqn:L; [left; lia|right].
    pose proof (backoff_bounds r Hf). apply ssub_ge in H; lia.
Qed.

Lemma should_attempt_grace : forall r now,
  should_attempt r now = true -> r_est r = 0 -> r_grace r < now.
Proof.
  intros r now H E. unfold should_attempt in H. rewrite E in H. simpl in H.
  destruct (now <=? r_grace r) eqn:G; [discriminate|lia].
Qed.

(** an attempt is due at the latest 120 s after the previous one *)
Lemma should_attempt_due : forall r now, 0 <= r_fail r ->
  (r_est r = 0 -> r_grace r < now) ->
  120000 <= now - r_last r -> should_attempt r now = true.
Proof.
  intros r now Hf Hg H. unfold should_attempt. change INITIAL_RETRY_CADENCE_MS with 1000.
  destruct (r_est r =? 0) eqn:E.
  - assert (now <=? r_grace r = false) as -> by (specialize (Hg ltac:(lia)); lia).
    destruct (r_last r =? 0); [reflexivity|]. apply ssub_of_ge. lia.
  - destruct (r_last r =? 0); [reflexivity|]. apply ssub_of_ge.
    pose proof (backoff_bounds r Hf). lia.
Qed.

(** with no failed re-creation on record the delay is the base 5 s *)
Lemma should_attempt_due_base : forall r now, r_fail r = 0 -> r_est r <> 0 ->
  5000 <= now - r_last r -> should_attempt r now = true.
Proof.
  intros r now Hf He H. unfold should_attempt.
  assert (r_est r =? 0 = false) as -> by lia.
  destruct (r_last r =? 0); [reflexivity|]. apply ssub_of_ge.
  assert (B : backoff_delay r = 5000) by (unfold backoff_delay; rewrite Hf; reflexivity).
  rewrite B. lia.
Qed.

Lemma record_attempt_last : forall r now, r_last (record_attempt r now) = now.
Proof. intros. unfold record_attempt. destruct (r_est r =? 0); reflexivity. Qed.
Lemma record_attempt_est : forall r now, r_est (record_attempt r now) = r_est r.
Proof. intros. unfold record_attempt. destruct (r_est r =? 0); reflexivity. Qed.
Lemma record_attempt_fail_nonneg : forall r now, 0 <= r_fail r -> 0 <= r_fail (record_attempt r now).
Proof. intros. unfold record_attempt. destruct (r_est r =? 0); cbn [r_fail]; [assumption|]. unfold sat_add_u32, clamp, two32. lia. Qed.

(** ---- is_timed_out ---- *)
Lemma timed_out_connected : forall l now, l_conn l = true -> 0 < l_to l ->
  is_timed_out l now = true -> exists lr, l_lr l = Some lr /\ l_to l <= now - lr.
Proof.
  intros l now Hc Ht H. unfold is_timed_out in H. rewrite Hc in H. simpl in H.
  destruct (l_lr l) as [lr|]; [|discriminate]. exists lr. split; [reflexivity|]. apply ssub_ge in H; lia.
Qed.

Lemma timed_out_disconnected : forall l now, l_conn l = false -> 0 < l_to l ->
  is_timed_out l now = true -> l_lr l = None \/ exists lr, l_lr l = Some lr /\ l_to l <= now - lr.
Proof.
  intros l now Hc Ht H. unfold is_timed_out, stale in H. rewrite Hc in H. simpl in H.
  destruct ((r_est (l_rc l) =? 0) && (now <? r_grace (l_rc l))); [discriminate|].
  destruct (l_lr l) as [lr|]; [right|left; reflexivity]. exists lr. split; [reflexivity|].
  unfold ssub in H. lia.
Qed.

Lemma alive_when_heard : forall l now lr, l_conn l = true -> l_lr l = Some lr -> 0 < l_to l -> now - lr < l_to l ->
  is_timed_out l now = false.
Proof. intros l now lr Hc Hl Hp H. unfold is_timed_out. rewrite Hc, Hl. cbn [negb]. unfold ssub. lia. Qed.

Lemma dead_link_timed_out : forall l now, l_conn l = false -> l_lr l = None ->
  (r_est (l_rc l) = 0 -> r_grace (l_rc l) <= now) -> is_timed_out l now = true.
Proof.
  intros l now Hc Hl Hg. unfold is_timed_out, stale. rewrite Hc, Hl. cbn [negb].
  destruct (r_est (l_rc l) =? 0) eqn:E; cbn [andb]; [|reflexivity].
  assert (now <? r_grace (l_rc l) = false) as -> by (specialize (Hg ltac:(lia)); lia). reflexivity.
Qed.

(** no routing penalty is read by the liveness predicates *)
Lemma is_timed_out_pen : forall l p now, is_timed_out (set_pen l p) now = is_timed_out l now.
Proof. reflexivity. Qed.

(** ---- what the resets leave behind ---- *)
Lemma mark_for_recovery_clean : forall l,
  let l' := mark_for_recovery l in
  l_conn l' = false /\ l_lr l' = None /\ l_win l' = WINDOW_DEFAULT /\ l_inf l' = 0 /\ l_ph l' = PReg /\
  l_gen l' = l_gen l /\ p_gated (l_pen l') = false.
Proof. intros. cbv [l' mark_for_recovery reset_core l_conn l_lr l_win l_inf l_ph l_gen l_pen ungate p_gated]. tauto. Qed.

Lemma reconnected_clean : forall l now,
  let l' := reconnected l now in
  l_conn l' = false /\ l_lr l' = None /\ l_win l' = WINDOW_DEFAULT /\ l_inf l' = 0 /\ l_ph l' = PReg /\
  l_gen l' = l_gen l + 1 /\ r_last (l_rc l') = now /\ r_fail (l_rc l') = 0 /\
  r_grace (l_rc l') = now + STARTUP_GRACE_MS /\ l_sock l' = true /\ p_gated (l_pen l') = false.
Proof. intros. cbv [l' reconnected reset_core l_conn l_lr l_win l_inf l_ph l_gen l_rc l_pen l_sock ungate p_gated r_last r_fail r_grace]. tauto. Qed.

Lemma reg3_link_clean : forall l now,
  let l' := reg3_link l now in
  l_conn l' = true /\ l_lr l' = Some now /\ l_inf l' = 0 /\ l_ph l' = PWarm 0 now /\ l_win l' = WINDOW_DEFAULT /\
  r_fail (l_rc l') = 0 /\ l_gen l' = l_gen l.
Proof. intros. cbv [l' reg3_link l_conn l_lr l_win l_inf l_ph l_gen l_rc r_fail]. tauto. Qed.
