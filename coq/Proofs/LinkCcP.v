(** LinkCcP.v — lemmas about the link-CC model: association-list plumbing, the shape of one
    [tick], arithmetic facts about the new target, invariants of a link and of the controller. *)
From Coq Require Import Floats ZifyBool.
From Srtla Require Import Base Constants LinkCc.
From Srtla Require FConstants.
Local Open Scope Z_scope.
Ltac Zify.zify_post_hook ::= Z.div_mod_to_equations.

Ltac uconst :=
  unfold MIN_TARGET_BPS, MAX_TARGET_BPS, INITIAL_TARGET_BPS, BACKOFF_PERMILLE, DRAIN_PERMILLE,
         AI_STEP_PERMILLE, HAI_STEP_PERMILLE, FAST_RECOVERY_STEP_PERMILLE, FAST_RECOVERY_TICKS,
         CC_OUTLIER_FACTOR_micro, BACKOFF_MIN_LOAD_PERMILLE, LOSS_BACKOFF_PERMILLE,
         BACKOFF_EFFICACY_TICKS, BACKOFF_EFFICACY_IMPROVEMENT_PERMILLE, LOSS_UNCONGESTIVE_RETEST_TICKS,
         LOSS_DEGRADE_SUSTAIN_MS, LOSS_WINDOW_MS, ASSUMED_SRT_PAYLOAD_BYTES, CC_RTT_MIN_WINDOW_MS in *.

(** ---- association lists ---- *)
Section Maps.
  Context {A : Type}.
  Implicit Types (m : list (Z * A)) (k : Z) (v d : A).

  Lemma lookup_upsert_same m k v : lookup (upsert m k v) k = Some v.
  Proof.
    induction m as [|[k' v'] m IH]; cbn; [rewrite Z.eqb_refl; reflexivity|].
    destruct (k =? k') eqn:E; cbn; [rewrite Z.eqb_refl; reflexivity|rewrite E; exact IH].
  Qed.

  Lemma lookup_upsert_other m k k2 v : k2 <> k -> lookup (upsert m k v) k2 = lookup m k2.
  Proof.
    intro Hne. induction m as [|[k' v'] m IH]; cbn.
    - destruct (k2 =? k) eqn:E; [lia|reflexivity].
    - destruct (k =? k') eqn:E; cbn.
      + assert (k = k') by lia; subst k'.
        destruct (k2 =? k) eqn:E2; [lia|reflexivity].
      + destruct (k2 =? k'); [reflexivity|exact IH].
  Qed.

  Lemma getd_upsert_same d m k v : getd d (upsert m k v) k = v.
  Proof. unfold getd. rewrite lookup_upsert_same. reflexivity. Qed.
  Lemma getd_upsert_other d m k k2 v : k2 <> k -> getd d (upsert m k v) k2 = getd d m k2.
  Proof. intro H. unfold getd. rewrite lookup_upsert_other by exact H. reflexivity. Qed.

  Lemma keys_upsert m k v :
    map fst (upsert m k v) = if memZ k (map fst m) then map fst m else map fst m ++ [k].
  Proof.
    induction m as [|[k' v'] m IH]; cbn; [reflexivity|].
    destruct (k =? k') eqn:E; cbn.
    - assert (k = k') by lia; subst. reflexivity.
    - rewrite IH. unfold memZ. destruct (existsb (Z.eqb k) (map fst m)); reflexivity.
  Qed.

  Lemma memZ_In k (l : list Z) : memZ k l = true <-> In k l.
  Proof.
    unfold memZ. rewrite existsb_exists. split.
    - intros [x [Hx E]]. assert (k = x) by lia. subst. exact Hx.
    - intro H. exists k. split; [exact H|apply Z.eqb_refl].
  Qed.
  Lemma memZ_false k (l : list Z) : memZ k l = false <-> ~ In k l.
  Proof.
    rewrite <- memZ_In. destruct (memZ k l); split; intro H.
    - discriminate.
    - exfalso; apply H; reflexivity.
    - intro; discriminate.
    - reflexivity.
  Qed.

  Lemma NoDup_keys_upsert m k v : NoDup (map fst m) -> NoDup (map fst (upsert m k v)).
  Proof.
    intro H. rewrite keys_upsert. destruct (memZ k (map fst m)) eqn:E; [exact H|].
    apply memZ_false in E.
    apply NoDup_rev in H. rewrite <- (rev_involutive (map fst m ++ [k])).
    apply NoDup_rev. rewrite rev_app_distr. cbn. constructor; [|exact H].
    rewrite <- in_rev. exact E.
  Qed.

  Lemma In_keys_upsert m k v k2 : In k2 (map fst (upsert m k v)) <-> k2 = k \/ In k2 (map fst m).
  Proof.
    rewrite keys_upsert. destruct (memZ k (map fst m)) eqn:E.
    - apply memZ_In in E. split; [auto|]. intros [->|H]; assumption.
    - rewrite in_app_iff. cbn. intuition.
  Qed.

  Lemma lookup_retain m (ids : list Z) k : memZ k ids = true -> lookup (retain m ids) k = lookup m k.
  Proof.
    intro Hk. induction m as [|[k' v'] m IH]; cbn; [reflexivity|].
    destruct (memZ k' ids) eqn:E; cbn.
    - destruct (k =? k'); [reflexivity|exact IH].
    - destruct (k =? k') eqn:E2; [|exact IH]. assert (k = k') by lia. congruence.
  Qed.
  Lemma getd_retain d m (ids : list Z) k : In k ids -> getd d (retain m ids) k = getd d m k.
  Proof. intro H. unfold getd. rewrite lookup_retain; [reflexivity|apply memZ_In; exact H]. Qed.

  Lemma keys_retain m (ids : list Z) : map fst (retain m ids) = filter (fun k => memZ k ids) (map fst m).
  Proof.
    unfold retain. induction m as [|[k' v'] m IH]; cbn; [reflexivity|].
    destruct (memZ k' ids); cbn; rewrite IH; reflexivity.
  Qed.

  Lemma In_retain m (ids : list Z) kv : In kv (retain m ids) -> In kv m.
  Proof. unfold retain. rewrite filter_In. tauto. Qed.

  Lemma In_upsert m k v kv : In kv (upsert m k v) -> kv = (k, v) \/ In kv m.
  Proof.
    induction m as [|[k' v'] m IH]; cbn.
    - intros [H|[]]; left; symmetry; exact H.
    - destruct (k =? k'); cbn; intros [H|H]; auto.
      destruct (IH H); auto.
  Qed.

  Lemma getd_In_or_default d m k : getd d m k = d \/ In (k, getd d m k) m.
  Proof.
    unfold getd. induction m as [|[k' v'] m IH]; cbn; [left; reflexivity|].
    destruct (k =? k') eqn:E.
    - right. left. f_equal. lia.
    - destruct IH; auto.
  Qed.
End Maps.

(** ---- f64 -> u64 ---- *)
Lemma f64_to_u64_range x : 0 <= f64_to_u64 x <= u64_max.
Proof.
  unfold f64_to_u64. destruct (Prim2SF x) as [s|s| |s m e]; try (unfold u64_max, two64; lia).
  - destruct s; unfold u64_max, two64; lia.
  - destruct s; [unfold u64_max, two64; lia|].
    destruct (0 <=? e) eqn:E.
    + assert (0 < 2 ^ e) by (apply Z.pow_pos_nonneg; lia).
      assert (0 <= Z.pos m * 2 ^ e) by (apply Z.mul_nonneg_nonneg; lia).
      unfold u64_max, two64 in *. lia.
    + assert (0 < 2 ^ (- e)) by (apply Z.pow_pos_nonneg; lia).
      assert (0 <= Z.pos m / 2 ^ (- e)) by (apply Z.div_pos; lia).
      unfold u64_max, two64 in *. lia.
Qed.

(** ---- the shape of one tick ---- *)
Lemma choose_state_not_bootstrap lh ld unc infl : choose_state lh ld unc infl <> Bootstrap.
Proof.
  unfold choose_state.
  destruct (lh && ld && negb unc); [discriminate|].
  destruct (f_le _ _); [discriminate|].
  destruct (f_lt _ _); discriminate.
Qed.

Definition new_target (c : core) (ns : cc_state) (md : climb_mode) (observed : Z) : Z :=
  let sane := sane_observed (c_target c) observed in
  clamp_target (next_target ns (c_state c) md (seed_target (c_seeded c) (c_target c) sane) sane).

Lemma tick_core_shape s observed now lewma :
  (rtt_invalid (k_rtt s) = true /\
   k_core (tick s observed now lewma) = mkCore Bootstrap Normal MIN_TARGET_BPS (c_fr_ticks (k_core s)) false)
  \/
  (rtt_invalid (k_rtt s) = false /\
   exists ns md fr, ns <> Bootstrap /\
     k_core (tick s observed now lewma) = mkCore ns md (new_target (k_core s) ns md observed) fr true /\
     (0 <= c_fr_ticks (k_core s) <= FAST_RECOVERY_TICKS -> 0 <= fr <= FAST_RECOVERY_TICKS)).
Proof.
  unfold tick. destruct (rtt_invalid (k_rtt s)) eqn:Ei.
  - left. split; reflexivity.
  - right. split; [reflexivity|].
    cbv zeta. cbn [k_core].
    match goal with |- context [choose_state ?a ?b ?c ?d] => set (ns := choose_state a b c d) end.
    match goal with |- context [mkCore ns ?m _ ?f true] => exists ns, m, f end.
    split; [apply choose_state_not_bootstrap|]. split; [reflexivity|].
    intro Hfr. uconst. unfold ssub.
    destruct (is_bo_or_drain _ && cc_state_eqb ns Climbing); destruct (cc_state_eqb ns Climbing); lia.
Qed.

Lemma tick_latch s observed now lewma :
  k_latch (tick s observed now lewma) =
  if rtt_invalid (k_rtt s) then k_latch s else update_loss_ewma (k_latch s) lewma now.
Proof. unfold tick. destruct (rtt_invalid (k_rtt s)); reflexivity. Qed.

Lemma tick_rtt s observed now lewma : k_rtt (tick s observed now lewma) = k_rtt s.
Proof. unfold tick. destruct (rtt_invalid (k_rtt s)); reflexivity. Qed.

Lemma tick_eff s observed now lewma :
  k_eff (tick s observed now lewma) =
  if rtt_invalid (k_rtt s) then k_eff s
  else update_backoff_efficacy (k_eff s) (c_state (k_core s))
         (LOSS_BACKOFF_PERMILLE <? loss_permille (evict_expired (k_win s) now))
         (loss_permille (evict_expired (k_win s) now)).
Proof. unfold tick. destruct (rtt_invalid (k_rtt s)); reflexivity. Qed.

Lemma tick_win s observed now lewma : k_win (tick s observed now lewma) = evict_expired (k_win s) now.
Proof. unfold tick. destruct (rtt_invalid (k_rtt s)); reflexivity. Qed.

(** ---- arithmetic of the new target (integers only) ---- *)
Lemma clamp_target_range x : MIN_TARGET_BPS <= clamp_target x <= MAX_TARGET_BPS.
Proof. unfold clamp_target, clamp. uconst. lia. Qed.

Lemma new_target_range c ns md observed :
  MIN_TARGET_BPS <= new_target c ns md observed <= MAX_TARGET_BPS.
Proof. apply clamp_target_range. Qed.

(** seeded link, any non-bootstrap choice: growth at most 6 %, and only up to 2x measured *)
Lemma new_target_growth c ns md observed :
  c_seeded c = true -> MIN_TARGET_BPS <= c_target c <= MAX_TARGET_BPS ->
  let t' := new_target c ns md observed in
  t' * 1000 <= c_target c * 1060 /\ (c_target c < t' -> t' <= 2 * observed).
Proof.
  intros Hs Ht. unfold new_target, seed_target, sane_observed. rewrite Hs. cbn [negb].
  set (t := c_target c) in *.
  unfold clamp_target, clamp, next_target.
  destruct ns; [uconst; lia| |uconst; lia| |].
  - destruct md; cbn [step_permille]; uconst;
      destruct (0 <? Z.min observed (Z.max t 1000000 * 4000000 / 1000000)); lia.
  - uconst. lia.
  - destruct (negb (cc_state_eqb (c_state c) Drain)); uconst; lia.
Qed.

(** seeded link: what can lower the target *)
Lemma new_target_lowered c ns md observed :
  c_seeded c = true -> MIN_TARGET_BPS <= c_target c <= MAX_TARGET_BPS -> 0 <= observed ->
  let t := c_target c in let t' := new_target c ns md observed in
  t' < t ->
  (ns = BackingOff /\ t * 850 / 1000 <= t' /\ Z.min observed t <= t' /\
     t' <= Z.max MIN_TARGET_BPS (Z.max (t * 850 / 1000) (Z.min observed t))) \/
  (ns = Drain /\ c_state c <> Drain /\ t' = Z.max MIN_TARGET_BPS (t * 750 / 1000)).
Proof.
  intros Hs Ht Ho. unfold new_target, seed_target, sane_observed. rewrite Hs. cbn [negb].
  set (t := c_target c) in *. cbv zeta.
  unfold clamp_target, clamp, next_target.
  destruct ns.
  - uconst; lia.
  - destruct md; cbn [step_permille]; uconst;
      destruct (0 <? Z.min observed (Z.max t 1000000 * 4000000 / 1000000)); lia.
  - uconst; lia.
  - intro Hlt. left. split; [reflexivity|]. uconst. lia.
  - destruct (cc_state_eqb (c_state c) Drain) eqn:E; cbn [negb].
    + uconst; lia.
    + intro Hlt. right. split; [reflexivity|]. split.
      * intro H. rewrite H in E. discriminate.
      * uconst. lia.
Qed.

(** the back-off never raises the cap and never cuts below the measured rate *)
Lemma new_target_backoff c md observed :
  c_seeded c = true -> MIN_TARGET_BPS <= c_target c <= MAX_TARGET_BPS ->
  let t := c_target c in let t' := new_target c BackingOff md observed in
  t' <= t /\ Z.min observed t <= t' /\ t * 850 / 1000 <= t'.
Proof.
  intros Hs Ht. unfold new_target, seed_target, sane_observed. rewrite Hs. cbn [negb].
  set (t := c_target c) in *. cbv zeta.
  unfold clamp_target, clamp, next_target. uconst. lia.
Qed.

(** ---- invariants of one link ---- *)
Definition core_inv (c : core) : Prop :=
  MIN_TARGET_BPS <= c_target c <= MAX_TARGET_BPS /\
  (c_state c = Bootstrap -> c_target c = MIN_TARGET_BPS /\ c_seeded c = false) /\
  (c_state c <> Bootstrap -> c_seeded c = true) /\
  0 <= c_fr_ticks c <= FAST_RECOVERY_TICKS.

Lemma core_inv_default : core_inv (k_core link_default).
Proof.
  unfold core_inv, link_default. cbn. uconst.
  repeat split; try lia; intro H; congruence.
Qed.

Lemma core_inv_tick s observed now lewma :
  core_inv (k_core s) -> core_inv (k_core (tick s observed now lewma)).
Proof.
  intros (Ht & Hb & Hn & Hfr).
  destruct (tick_core_shape s observed now lewma) as [[_ E]|[_ (ns & md & fr & Hns & E & Hf)]]; rewrite E.
  - unfold core_inv. cbn [c_target c_state c_seeded c_fr_ticks].
    split; [uconst; lia|]. split; [intro; split; reflexivity|]. split; [intro H; congruence|exact Hfr].
  - unfold core_inv. cbn [c_target c_state c_seeded c_fr_ticks].
    split; [apply new_target_range|]. split; [intro Hc; contradiction|].
    split; [intro; reflexivity|apply Hf; exact Hfr].
Qed.

Lemma link_step_core s now i :
  k_core (link_step s now i) =
  k_core (tick (mkLink (pre_tick_rtt s now i) (observe_traffic (k_win s) (i_bytes i) (i_nak i) now)
                       (k_latch s) (k_eff s) (k_core s)) (observed_bps i) now (i_lewma i)).
Proof. reflexivity. Qed.

Lemma core_inv_step s now i : core_inv (k_core s) -> core_inv (k_core (link_step s now i)).
Proof. intro H. rewrite link_step_core. apply core_inv_tick. exact H. Qed.

(** counters that the Rust code increments with [+= 1] stay small (no u32 overflow) *)
Definition eff_inv (e : eff) : Prop :=
  0 <= e_ticks e <= BACKOFF_EFFICACY_TICKS /\ 0 <= e_unc_ticks e < LOSS_UNCONGESTIVE_RETEST_TICKS /\
  (e_unc e = false -> e_ticks e < BACKOFF_EFFICACY_TICKS).

Ltac eff_solve :=
  cbn [e_ticks e_unc_ticks e_unc e_entry_pm]; uconst;
  split; [lia|split; [lia|let Hx := fresh in intro Hx; try discriminate Hx; try lia]].

Lemma eff_inv_update e st lh pm : eff_inv e -> eff_inv (update_backoff_efficacy e st lh pm).
Proof.
  intros (H1 & H2 & H3). unfold update_backoff_efficacy, eff_inv.
  destruct lh; cbn [negb]; [|eff_solve].
  destruct (e_unc e) eqn:Eu.
  - destruct (LOSS_UNCONGESTIVE_RETEST_TICKS <=? e_unc_ticks e + 1) eqn:E; eff_solve.
  - specialize (H3 eq_refl).
    destruct (negb (cc_state_eqb st BackingOff)); [eff_solve|].
    destruct (e_ticks e + 1 <? BACKOFF_EFFICACY_TICKS) eqn:E; [eff_solve|].
    destruct (pm * 1000 <? _); eff_solve.
Qed.

Lemma eff_inv_step s now i : eff_inv (k_eff s) -> eff_inv (k_eff (link_step s now i)).
Proof.
  intro H. unfold link_step. rewrite tick_eff. cbn [k_rtt k_eff k_core k_win].
  destruct (rtt_invalid _); [exact H|]. apply eff_inv_update. exact H.
Qed.

(** sliding-window sums stay u32 values *)
Definition sample_ok (x : loss_sample) : Prop := 0 <= ls_lost x /\ 0 <= ls_sent x.
Definition win_inv (w : loss_win) : Prop :=
  0 <= w_lost w <= u32_max /\ 0 <= w_sent w <= u32_max /\ Forall sample_ok (w_samples w).

Lemma evict_samples_range l cutoff sent lost :
  Forall sample_ok l -> 0 <= sent <= u32_max -> 0 <= lost <= u32_max ->
  let '(l2, s', l') := evict_samples l cutoff sent lost in
  0 <= s' <= u32_max /\ 0 <= l' <= u32_max /\ Forall sample_ok l2.
Proof.
  revert sent lost. induction l as [|x l IH]; intros sent lost Hf Hs Hl; cbn; [tauto|].
  destruct (ls_ts x <? cutoff); [|tauto].
  inversion Hf as [|? ? [Hx1 Hx2] Hf']; subst.
  apply IH; [exact Hf'| |]; unfold ssub; unfold u32_max, two32 in *; lia.
Qed.

Lemma win_inv_evict w now : win_inv w -> win_inv (evict_expired w now).
Proof.
  intros (H1 & H2 & H3). unfold evict_expired.
  pose proof (evict_samples_range (w_samples w) (ssub now LOSS_WINDOW_MS) (w_sent w) (w_lost w) H3 H2 H1) as H.
  destruct (evict_samples _ _ _ _) as [[l s'] l']. unfold win_inv. cbn. tauto.
Qed.

Lemma win_inv_record w sent lost now :
  win_inv w -> 0 <= sent -> 0 <= lost -> win_inv (record_loss w sent lost now).
Proof.
  intros (H1 & H2 & H3) Hs Hl. unfold record_loss. apply win_inv_evict. unfold win_inv, sat_u32, clamp. cbn.
  split; [unfold u32_max, two32; lia|]. split; [unfold u32_max, two32; lia|].
  apply Forall_app. split; [exact H3|]. constructor; [split; assumption|constructor].
Qed.

Lemma win_inv_observe w bytes nak now : win_inv w -> win_inv (observe_traffic w bytes nak now).
Proof.
  intro H. unfold observe_traffic.
  destruct (negb (w_baseline w)); [exact H|].
  destruct (_ && _); [exact H|]. apply win_inv_record; [exact H| |lia].
  assert (0 <= ssub bytes (w_prev_bytes w) / ASSUMED_SRT_PAYLOAD_BYTES).
  { apply Z.div_pos; [unfold ssub; lia|uconst; lia]. }
  unfold u32_max, two32. destruct (0 <? _); lia.
Qed.

Lemma win_inv_step s now i : win_inv (k_win s) -> win_inv (k_win (link_step s now i)).
Proof.
  intro H. unfold link_step. rewrite tick_win. cbn [k_win].
  apply win_inv_evict, win_inv_observe, H.
Qed.

Definition link_inv (s : link) : Prop := core_inv (k_core s) /\ eff_inv (k_eff s) /\ win_inv (k_win s).

Lemma link_inv_default : link_inv link_default.
Proof.
  split; [apply core_inv_default|]. split.
  - unfold eff_inv; cbn; uconst; repeat split; lia.
  - unfold win_inv; cbn; unfold u32_max, two32; repeat split; try lia. constructor.
Qed.

Lemma link_inv_step s now i : link_inv s -> link_inv (link_step s now i).
Proof.
  intros (H1 & H2 & H3). split; [apply core_inv_step, H1|].
  split; [apply eff_inv_step, H2|apply win_inv_step, H3].
Qed.

(** ---- lifting a link invariant to the controller ---- *)
Definition ctrl_all (P : link -> Prop) (c : ctrl) : Prop := forall k s, In (k, s) c -> P s.

Lemma ctrl_all_tick_links (P : link -> Prop) now :
  P link_default -> (forall s i, P s -> P (link_step s now i)) ->
  forall inps c, ctrl_all P c -> ctrl_all P (tick_links c now inps).
Proof.
  intros Hd Hs. induction inps as [|i t IH]; intros c Hc; cbn; [exact Hc|].
  apply IH. intros k s Hin. apply In_upsert in Hin. destruct Hin as [E|Hin].
  - inversion E; subst. apply Hs.
    destruct (getd_In_or_default link_default c (i_id i)) as [E2|Hi]; [rewrite E2; exact Hd|].
    eapply Hc; exact Hi.
  - eapply Hc; exact Hin.
Qed.

Lemma ctrl_all_tick_all (P : link -> Prop) now inps c :
  P link_default -> (forall s i, P s -> P (link_step s now i)) ->
  ctrl_all P c -> ctrl_all P (tick_all c now inps).
Proof.
  intros Hd Hs Hc k s Hin. unfold tick_all in Hin. apply In_retain in Hin.
  eapply ctrl_all_tick_links; eauto.
Qed.
