(** C08LiveP.v — step-level corollaries (index form), penalty non-interference and the
    bounded-liveness lemma for C08. *)
From Coq Require Import ZifyBool.
From Srtla Require Import Base Constants Reconnect ReconShell ReconStep ReconnectP ReconStepP Mon_C08 Run_C08 C08P.
Local Open Scope Z_scope.
Ltac Zify.zify_post_hook ::= Z.div_mod_to_equations.

Lemma F2i_nth : forall P la lb i0 i a b, F2i P i0 la lb ->
  nth_error la i = Some a -> nth_error lb i = Some b -> P (i0 + i)%nat a b.
Proof.
  intros P la lb i0 i a b F. revert i. induction F as [|k x y la lb HP F IH]; intros j Ha Hb.
  - destruct j; discriminate.
  - destruct j as [|i]; cbn in Ha, Hb.
    + inversion Ha; inversion Hb; subst. rewrite Nat.add_0_r. exact HP.
    + replace (k + S i)%nat with (S k + i)%nat by lia. apply IH; assumption.
Qed.

Lemma step_link_at : forall s o i l l',
  nth_error (links s) i = Some l -> nth_error (links (fst (step s o))) i = Some l' ->
  LStep (cfg_to s) (is_probing (rg s)) o i l l'.
Proof. intros s o i l l' H1 H2. exact (F2i_nth _ _ _ 0%nat i l l' (step_rel s o) H1 H2). Qed.

Lemma step_links_length : forall s o, length (links (fst (step s o))) = length (links s).
Proof. intros. exact (F2i_length _ _ _ _ (step_rel s o)). Qed.

(** ---- routing penalties are never read by the liveness plane ----
    [core]: everything about a link except its penalties and the Live/Degraded split
    (the only thing a penalty — loss_degraded — can move). *)
Definition ph_reg (p : phase) : phase := match p with PDeg => PLive | x => x end.
Definition core (l : link) :=
  (l_conn l, l_lr l, l_to l, l_rc l, ph_reg (l_ph l), l_win l, l_inf l, (l_gen l, l_io l, l_bind l, l_sock l)).

Lemma tick_link_pen : forall i l p g now classic dg w,
  let '(l1, g1, w1) := tick_link i (set_pen l p) g now classic dg w in
  let '(l2, g2, w2) := tick_link i l g now classic dg w in
  l_conn l1 = l_conn l2 /\ l_lr l1 = l_lr l2 /\ l_to l1 = l_to l2 /\ l_rc l1 = l_rc l2 /\ l_win l1 = l_win l2 /\
  l_inf l1 = l_inf l2 /\ l_gen l1 = l_gen l2 /\ l_sock l1 = l_sock l2 /\
  (l_ph l1 = PReg <-> l_ph l2 = PReg) /\ g1 = g2 /\ w1 = w2.
Proof.
  intros i l p g now classic dg w. unfold tick_link.
  change (is_timed_out (set_pen l p) now) with (is_timed_out l now).
  change (l_rc (set_pen l p)) with (l_rc l).
  destruct (is_timed_out l now).
  - destruct (should_attempt (l_rc l) now).
    + cbn [set_rc set_pen l_io l_bind l_conn l_lr l_to l_rc l_ph l_win l_inf l_gen l_sock l_pen].
      destruct (l_io l && l_bind l); destruct (g_pend g) as [idx|]; [destruct (Nat.eqb idx i)| |destruct (Nat.eqb idx i)|];
        cbn; repeat split; auto.
    + cbn. repeat split; auto.
  - cbn [set_pen l_conn]. destruct (negb classic && l_conn l); cbn; repeat split; auto;
      destruct (l_ph l); cbn; try discriminate; auto;
      repeat match goal with |- context [if ?b then _ else _] => destruct b end; try discriminate; auto.
Qed.

Lemma forward_pen : forall l p flushed inf',
  core (forward (set_pen l p) flushed inf') = core (forward l flushed inf').
Proof.
  intros. unfold forward. cbn [set_pen l_io]. destruct (flushed && l_io l); [|reflexivity].
  cbn [set_inf set_pen l_sock]. destruct (l_sock l); reflexivity.
Qed.

(** ---- bounded liveness, link-local ----
    A dead, previously established link with no failed re-creation on record, whose
    socket can be re-created, while no REG1 handshake is pending elsewhere. *)
Definition dead (l : link) : Prop :=
  l_conn l = false /\ l_lr l = None /\ r_est (l_rc l) <> 0 /\ r_fail (l_rc l) = 0 /\
  l_io l = true /\ l_bind l = true.

Lemma dead_timed_out : forall l now, dead l -> is_timed_out l now = true.
Proof. intros l now [C [L [E _]]]. apply dead_link_timed_out; try assumption. intros Z; contradiction. Qed.

Lemma tick_dead_due : forall i l g now classic dg w, dead l -> g_pend g = None ->
  5000 <= now - r_last (l_rc l) ->
  tick_link i l g now classic dg w =
  (reconnected (set_rc l (record_attempt (l_rc l) now)) now, g, [W_REG2]).
Proof.
  intros i l g now classic dg w D P Hd. unfold tick_link. rewrite (dead_timed_out l now D).
  destruct D as [C [L [E [F [IO B]]]]].
  rewrite (should_attempt_due_base (l_rc l) now F E Hd). rewrite P.
  cbn [set_rc l_io l_bind]. rewrite IO, B. cbn [andb]. unfold emit, can_send. cbn. rewrite IO. reflexivity.
Qed.

Lemma tick_dead_early : forall i l g now classic dg w, dead l ->
  r_last (l_rc l) <> 0 -> now - r_last (l_rc l) < 5000 ->
  tick_link i l g now classic dg w = (l, g, []).
Proof.
  intros i l g now classic dg w D N Hd. unfold tick_link. rewrite (dead_timed_out l now D).
  destruct D as [C [L [E [F _]]]].
  assert (SA : should_attempt (l_rc l) now = false).
  { unfold should_attempt. assert (r_est (l_rc l) =? 0 = false) as -> by lia.
    assert (r_last (l_rc l) =? 0 = false) as -> by lia.
    assert (B : backoff_delay (l_rc l) = 5000) by (unfold backoff_delay; rewrite F; reflexivity).
    rewrite B. unfold ssub. lia. }
  rewrite SA. reflexivity.
Qed.

(** iterate housekeeping passes on one link; collect (time, link after, wire) *)
Fixpoint run_ticks (i : nat) (l : link) (g : reg) (ts : list Z) : list (Z * link * list Z) :=
  match ts with
  | [] => []
  | t :: r => let '(l', g', w) := tick_link i l g t false 0 0 in (t, l', w) :: run_ticks i l' g' r
  end.

Fixpoint spaced (prev D : Z) (ts : list Z) : Prop :=
  match ts with [] => True | t :: r => prev <= t <= prev + D /\ spaced t D r end.

Lemma first_due_tick : forall ts i l g T D prev,
  dead l -> g_pend g = None -> r_last (l_rc l) <> 0 -> r_last (l_rc l) <= T ->
  prev <= T + 5000 -> spaced prev D ts -> (exists t, In t ts /\ T + 5000 <= t) ->
  exists t l', In (t, l', [W_REG2]) (run_ticks i l g ts) /\ t <= T + 5000 + D /\
               l_gen l' = l_gen l + 1 /\ l_conn l' = false /\ r_last (l_rc l') = t.
Proof.
  induction ts as [|t r IH]; intros i l g T D prev HD HP HN HT Hprev HS [t1 [HIn Ht1]]; [contradiction|].
  cbn [spaced] in HS. destruct HS as [[S1 S2] S3]. cbn [run_ticks].
  destruct (Z_lt_ge_dec (t - r_last (l_rc l)) 5000) as [Early|Due].
  - rewrite (tick_dead_early i l g t false 0 0 HD HN Early).
    destruct HIn as [->|HIn]; [lia|].
    destruct (IH i l g T D t HD HP HN HT ltac:(lia) S3 (ex_intro _ t1 (conj HIn Ht1))) as [t2 [l2 [A [B C]]]].
    exists t2, l2. split; [right; exact A|]. split; assumption.
  - rewrite (tick_dead_due i l g t false 0 0 HD HP ltac:(lia)).
    exists t, (reconnected (set_rc l (record_attempt (l_rc l) t)) t). split; [left; reflexivity|].
    split; [lia|]. cbn. repeat split; lia.
Qed.

(** ---- reachable states satisfy the invariant ---- *)
Lemma F2i_forall : forall cfg pb o i la lb, 0 < cfg -> op_pos o ->
  F2i (LStep cfg pb o) i la lb -> Forall LInv la -> Forall LInv lb.
Proof.
  intros cfg pb o i la lb Hc Hp F. induction F; intros HI; [constructor|].
  inversion HI; subst. constructor; [eapply LStep_inv; eassumption|auto].
Qed.

Lemma step_inv : forall s o, op_pos o -> Inv s -> Inv (fst (step s o)).
Proof.
  intros s o Hp [Hc HI]. split; [apply step_cfg_pos; exact Hc|].
  exact (F2i_forall _ _ _ _ _ _ Hc Hp (step_rel s o) HI).
Qed.

Lemma init_inv : forall n t0, Inv (init n t0).
Proof.
  intros n t0. split; [reflexivity|]. cbn [links init]. apply Forall_forall. intros l HIn.
  apply repeat_spec in HIn. subst. unfold LInv, link0. cbn. repeat split; try lia; discriminate.
Qed.

Lemma final_inv : forall ops s t, 0 < t -> wf_from t ops = true -> Inv s -> Inv (final s ops).
Proof.
  induction ops as [|o r IH]; intros s t Ht Hw HI; [exact HI|].
  destruct (wf_from_pos t o r Ht Hw) as [Hp [t' [Ht' Hw']]].
  cbn [final]. apply (IH _ t' Ht' Hw'). apply step_inv; assumption.
Qed.

Lemma init_sync : forall n t0, Sync (ms0 n t0) (init n t0).
Proof.
  intros n t0. split; [|split; reflexivity]. cbn [ms_links ms0 links init].
  induction n; cbn; constructor; [|assumption].
  unfold SyncL, ml0, link0. cbn. repeat split; try discriminate.
Qed.

Theorem monitor_holds : forall n t0 ops, wf_ops t0 ops = true -> all_refresh ops = true ->
  ok_C08 n t0 (trace n t0 ops) = true.
Proof.
  intros n t0 ops Hw Hr. unfold wf_ops in Hw. apply andb_true_iff in Hw. destruct Hw as [H0 Hw].
  unfold ok_C08, trace, run. apply (monitor_run ops (init n t0) (ms0 n t0) t0); try assumption; try lia.
  - apply init_inv.
  - apply init_sync.
Qed.

(** ---- survivors: an alive link is left connected on its socket, and housekeeping does not give up ---- *)
Lemma survivor_kept : forall s now dgs ws i l l' x, Inv s ->
  nth_error (links s) i = Some l ->
  nth_error (links (fst (step s (OTick now true dgs ws)))) i = Some l' ->
  l_conn l = true -> l_lr l = Some x -> now - x < cfg_to s ->
  l_conn l' = true /\ l_gen l' = l_gen l /\ l_lr l' = l_lr l /\ l_inf l' = l_inf l /\
  o_err (snd (step s (OTick now true dgs ws))) = false.
Proof.
  intros s now dgs ws i l l' x [Hc HI] H1 H2 C L D.
  pose proof (step_link_at s _ i l l' H1 H2) as ST.
  assert (LI : LInv l) by (rewrite Forall_forall in HI; apply HI; eapply nth_error_In; eassumption).
  pose proof (LStep_alive _ _ _ _ _ _ _ _ x Hc LI ST C L D) as AL.
  assert (E : o_err (snd (step s (OTick now true dgs ws))) = false).
  { destruct (o_err (snd (step s (OTick now true dgs ws)))) eqn:E; [|reflexivity]. cbn [step] in E, H2.
    pose proof (count_alive_zero _ now l' (step_tick_err s now true dgs ws E) (nth_error_In _ _ H2)). congruence. }
  cbn [LStep] in ST. destruct ST as [rg [classic [dg [w [_ ->]]]]].
  set (l1 := if rg then _ else _) in *.
  assert (A : l_conn l1 = true /\ l_lr l1 = Some x /\ l_to l1 = cfg_to s /\ l_gen l1 = l_gen l /\ l_inf l1 = l_inf l)
    by (unfold l1; destruct rg; cbn; auto).
  destruct A as [A1 [A2 [A3 [A4 A5]]]].
  assert (AL1 : is_timed_out l1 now = false) by (apply (alive_when_heard l1 now x); try assumption; lia).
  destruct (tls_cases l1 now classic dg w) as [[F _]|[[F _]|[_ [X1 [X2 [_ [X3 [_ [_ X4]]]]]]]]]; try congruence.
  repeat split; congruence.
Qed.

(** ---- bounded liveness: from the first due tick to "connected" ---- *)
Theorem rejoin_bound : forall ts i l g T D prev,
  dead l -> g_pend g = None -> r_last (l_rc l) <> 0 -> r_last (l_rc l) <= T ->
  prev <= T + 5000 -> spaced prev D ts -> (exists t, In t ts /\ T + 5000 <= t) ->
  exists t l', In (t, l', [W_REG2]) (run_ticks i l g ts) /\ t <= T + 5000 + D /\
    forall t3, let l3 := reg3_link l' t3 in
      l_conn l3 = true /\ l_win l3 = WINDOW_DEFAULT /\ l_inf l3 = 0 /\ l_ph l3 = PWarm 0 t3.
Proof.
  intros ts i l g T D prev HD HP HN HT Hprev HS HE.
  destruct (first_due_tick ts i l g T D prev HD HP HN HT Hprev HS HE) as [t [l' [A [B _]]]].
  exists t, l'. split; [exact A|]. split; [exact B|]. intros t3. cbn. tauto.
Qed.
