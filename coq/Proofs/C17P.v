(** C17P.v — the C17 theorems: never-weak-when, two-tick delay latch, probation,
    enter/leave thresholds, and the simulation showing that every trace of the model
    satisfies the monitor [ok_C17] of Run_C17.v. *)
From Coq Require Import Floats ZifyBool.
From Srtla Require Import Base Constants FConstants Classifier ClassifierP Run_C17.
Local Open Scope Z_scope.
Ltac Zify.zify_post_hook ::= Z.div_mod_to_equations.

(** ---- small list facts ------------------------------------------------------------- *)
Lemma nodup_map_inj {A} (f : A -> Z) (l : list A) a b :
  NoDup (map f l) -> In a l -> In b l -> f a = f b -> a = b.
Proof.
  induction l as [|x l IH]; intros Hnd Ha Hb Hf; [contradiction|].
  cbn [map] in Hnd. inversion Hnd as [|? ? Hx Hnd']; subst.
  destruct Ha as [->|Ha], Hb as [->|Hb]; auto.
  - exfalso. apply Hx. rewrite Hf. apply in_map. exact Hb.
  - exfalso. apply Hx. rewrite <- Hf. apply in_map. exact Ha.
Qed.

Lemma lookup_absent {A} (d : A) (st : list (Z * A)) id :
  ~ In id (map fst st) -> lookup d st id = d.
Proof.
  induction st as [|[k v] st IH]; intros H; cbn [lookup]; [reflexivity|].
  destruct (k =? id) eqn:Hk.
  - exfalso. apply H. left. apply Z.eqb_eq in Hk. exact Hk.
  - apply IH. intros Hin. apply H. right. exact Hin.
Qed.

Lemma lookup_forall {A} (P : A -> Prop) (d : A) (st : list (Z * A)) :
  P d -> Forall (fun kv => P (snd kv)) st -> forall id, P (lookup d st id).
Proof.
  intros Hd H id. induction H as [|[k v] st Hv _ IH]; cbn [lookup]; [exact Hd|].
  destruct (k =? id); [exact Hv|exact IH].
Qed.

Lemma keep_some_in {A} (f : lin -> option A) ls a :
  In a (keep_some (map f ls)) -> exists l, In l ls /\ f l = Some a.
Proof.
  induction ls as [|x ls IH]; cbn [map keep_some]; [contradiction|].
  destruct (f x) as [b|] eqn:Hx.
  - intros [Heq|Hin]; [subst; exists x; split; [left; reflexivity|exact Hx]|].
    destruct (IH Hin) as (l & Hl & Hs). exists l. split; [right; exact Hl|exact Hs].
  - intros Hin. destruct (IH Hin) as (l & Hl & Hs). exists l. split; [right; exact Hl|exact Hs].
Qed.

(** ---- clause 1: never weak while disconnected / under the floor; history cleared ---- *)
Lemma bypassed_iff ls :
  bypassed ls = true <-> ((total_bps ls <? 0x1.86ap+16)%float = true \/ conn_count ls = 0).
Proof.
  unfold bypassed. rewrite min_total_eq, orb_true_iff, Z.eqb_eq. tauto.
Qed.

Lemma never_weak_when st ls l :
  l_conn l = false \/ (total_bps ls <? 0x1.86ap+16)%float = true \/ conn_count ls = 0 ->
  o_weak (verdict st ls l) = false /\
  (o_reason (verdict st ls l) = RH \/ o_reason (verdict st ls l) = RB).
Proof.
  intros H. unfold verdict. destruct (bypassed ls) eqn:Hb; [cbn; auto|].
  destruct H as [Hc|H].
  - rewrite (link_step_none _ _ _ _ _ Hc). cbn. auto.
  - apply bypassed_iff in H. congruence.
Qed.

Lemma weak_is_classified st ls l : o_weak (verdict st ls l) = true -> classified ls l = true.
Proof.
  intros Hw. unfold classified. destruct (bypassed ls) eqn:Hb.
  - unfold verdict in Hw. rewrite Hb in Hw. discriminate.
  - destruct (l_conn l) eqn:Hc; [reflexivity|].
    destruct (never_weak_when st ls l (or_introl Hc)) as [H _]. congruence.
Qed.

Lemma floor_clears_history st ls :
  (total_bps ls <? 0x1.86ap+16)%float = true \/ conn_count ls = 0 -> fst (tick st ls) = [].
Proof. intros H. apply bypassed_iff in H. rewrite tick_state, H. reflexivity. Qed.

Lemma unclassified_forgotten st ls l :
  NoDup (map l_id ls) -> In l ls -> classified ls l = false ->
  mem (fst (tick st ls)) (l_id l) = lst0.
Proof.
  intros Hnd Hin Hc. unfold mem. apply lookup_absent. rewrite tick_keys.
  intros H. apply in_map_iff in H. destruct H as (l' & Hid & Hf).
  apply filter_In in Hf. destruct Hf as [Hin' Hc'].
  assert (l' = l) by (eapply nodup_map_inj; eauto). subst. congruence.
Qed.

Lemma absent_forgotten st ls id :
  ~ In id (map l_id ls) -> mem (fst (tick st ls)) id = lst0.
Proof.
  intros H. unfold mem. apply lookup_absent. rewrite tick_keys. intros Hin. apply H.
  apply in_map_iff in Hin. destruct Hin as (l & Hid & Hf). apply filter_In in Hf.
  apply in_map_iff. exists l. tauto.
Qed.

(** ---- per-link facts through [verdict] / [entry_after] ----------------------------------- *)
Lemma classified_facts st ls l :
  classified ls l = true ->
  step_facts (conn_count ls) (total_bps ls) (tier_of ls) (mem st (l_id l)) l
             (verdict st ls l) (entry_after st ls l).
Proof.
  intros Hc. unfold classified in Hc. apply andb_true_iff in Hc. destruct Hc as [Hb Hc].
  apply negb_true_iff in Hb.
  destruct (link_step_facts (conn_count ls) (total_bps ls) (tier_of ls) st l Hc) as (o & e' & Hs & Hf).
  unfold verdict, entry_after. rewrite Hb, Hs. exact Hf.
Qed.

(** ---- clause 2: a delay verdict needs the signal on this tick and the previous one ------ *)
Lemma delay_verdict_needs_streak st ls l :
  delay_verdict (verdict st ls l) = true ->
  classified ls l = true /\ signal ls l = true /\ 1 <= s_ds (mem st (l_id l)).
Proof.
  intros Hd. assert (Hw : o_weak (verdict st ls l) = true).
  { unfold delay_verdict in Hd. apply andb_true_iff in Hd. tauto. }
  assert (Hc := weak_is_classified _ _ _ Hw). split; [exact Hc|].
  destruct (classified_facts st ls l Hc) as (_ & _ & _ & _ & _ & Hdv & _).
  destruct (Hdv Hd) as (Hsig & Hst & _). split; [exact Hsig|].
  assert (HW : WEAK_SUSTAIN_TICKS = 2) by reflexivity.
  unfold sat_add_u32, clamp, two32 in Hst. lia.
Qed.

Lemma streak_needs_signal st ls id :
  1 <= s_ds (mem (fst (tick st ls)) id) ->
  exists l, In l ls /\ l_id l = id /\ classified ls l = true /\ signal ls l = true.
Proof.
  unfold mem. rewrite tick_state. destruct (bypassed ls) eqn:Hb; [cbn; lia|].
  intros H. apply (lookup_found lst0 (fun a => 1 <= s_ds a)) in H; [|cbn; lia].
  destruct H as (l & a & Hin & Hf & Ha). exists l. split; [exact Hin|].
  assert (Hk := link_step_key (conn_count ls) (total_bps ls) (tier_of ls) st l). rewrite Hf in Hk.
  split; [congruence|].
  destruct (l_conn l) eqn:Hc.
  - assert (Hcl : classified ls l = true) by (unfold classified; rewrite Hb, Hc; reflexivity).
    split; [exact Hcl|].
    destruct (classified_facts st ls l Hcl) as (_ & _ & _ & _ & Hds & _).
    unfold entry_after in Hds. rewrite Hf in Hds. fold (signal ls l) in Hds.
    destruct (signal ls l); [reflexivity|lia].
  - rewrite (link_step_none _ _ _ _ _ Hc) in Hf. discriminate.
Qed.

Lemma delay_needs_two st ls1 ls2 l2 :
  delay_verdict (verdict (fst (tick st ls1)) ls2 l2) = true ->
  classified ls2 l2 = true /\ signal ls2 l2 = true /\
  exists l1, In l1 ls1 /\ l_id l1 = l_id l2 /\ classified ls1 l1 = true /\ signal ls1 l1 = true.
Proof.
  intros H. apply delay_verdict_needs_streak in H. destruct H as (Hc & Hs & Hst).
  split; [exact Hc|]. split; [exact Hs|]. apply (streak_needs_signal st ls1 (l_id l2) Hst).
Qed.

Lemma delay_never_on_first_tick ls l : delay_verdict (verdict [] ls l) = false.
Proof.
  destruct (delay_verdict (verdict [] ls l)) eqn:H; [|reflexivity].
  apply delay_verdict_needs_streak in H. destruct H as (_ & _ & H). cbn in H. lia.
Qed.

Lemma delay_reason_matches st ls l :
  o_weak (verdict st ls l) = true ->
  (o_reason (verdict st ls l) = RR -> (tier_of ls <? rtt_of l) = true) /\
  (o_reason (verdict st ls l) = RQ -> l_qb l = true).
Proof.
  intros Hw. assert (Hc := weak_is_classified _ _ _ Hw).
  destruct (classified_facts st ls l Hc) as (_ & _ & _ & _ & _ & _ & Hr & Hq & _). split; auto.
Qed.

(** ---- clause 3: bounds on the memory, probation ---------------------------------------------- *)
Definition entry_ok (e : lst) : Prop :=
  0 <= s_ds e <= u32_max /\ 0 <= s_ws e < 15 /\ 0 <= s_pr e <= 3 /\ (0 < s_pr e -> s_ws e = 0).
Definition st_ok (st : fstate) : Prop := forall id, entry_ok (mem st id).

Lemma entry_ok_default : entry_ok lst0.
Proof. unfold entry_ok, lst0, u32_max, two32. cbn. lia. Qed.

Lemma st_ok_nil : st_ok [].
Proof. intros id. exact entry_ok_default. Qed.

Lemma entry_after_ok st ls l :
  classified ls l = true -> entry_ok (mem st (l_id l)) -> entry_ok (entry_after st ls l).
Proof.
  intros Hc Hok. destruct (classified_facts st ls l Hc) as
      (_ & _ & _ & _ & Hds & _ & _ & _ & Hp1 & Hp2 & Hp3 & _).
  unfold entry_ok in *. destruct Hok as (Hd & Hw & Hp & Hpw).
  assert (HI : PROBATION_INTERVAL_TICKS = 15) by reflexivity.
  assert (HWn : PROBATION_WINDOW_TICKS = 3) by reflexivity.
  assert (Hsat : forall x, 0 <= x <= u32_max -> 0 <= sat_add_u32 x 1 <= u32_max /\
                                           (x < u32_max -> sat_add_u32 x 1 = x + 1)).
  { intros x Hx. unfold sat_add_u32, clamp, u32_max, two32 in *. lia. }
  assert (Hu : 15 < u32_max) by (unfold u32_max, two32; lia).
  destruct (Hsat (s_ds (mem st (l_id l))) Hd) as [Hs1 _].
  destruct (Hsat (s_ws (mem st (l_id l))) ltac:(lia)) as [_ Hs2].
  split.
  { rewrite Hds. destruct ((tier_of ls <? rtt_of l) || l_qb l); lia. }
  destruct (Z_lt_le_dec 0 (s_pr (mem st (l_id l)))) as [Hpos|Hnp].
  - destruct (Hp1 Hpos) as (_ & _ & Hpr & Hws). lia.
  - destruct (share_verdict (verdict st ls l)) eqn:Hsv.
    + destruct (Hp2 Hnp eq_refl) as [(Ha & Hb & Hc')|(Ha & Hb & Hc')]; lia.
    + destruct (Hp3 Hnp eq_refl) as (Ha & Hb). lia.
Qed.

Lemma tick_ok st ls : st_ok st -> st_ok (fst (tick st ls)).
Proof.
  intros Hok id. unfold mem. apply lookup_forall; [exact entry_ok_default|].
  rewrite tick_state. destruct (bypassed ls) eqn:Hb; [constructor|].
  apply Forall_forall. intros [k e] Hin. cbn [snd].
  apply keep_some_in in Hin. destruct Hin as (l & Hl & Hs).
  destruct (l_conn l) eqn:Hc; [|rewrite (link_step_none _ _ _ _ _ Hc) in Hs; discriminate].
  assert (Hcl : classified ls l = true) by (unfold classified; rewrite Hb, Hc; reflexivity).
  assert (He := entry_after_ok st ls l Hcl (Hok (l_id l))).
  unfold entry_after in He. rewrite Hs in He. exact He.
Qed.

Lemma state_after_ok ops : forall st, st_ok st -> st_ok (state_after st ops).
Proof.
  induction ops as [|ls ops IH]; intros st Hok; cbn [state_after]; [exact Hok|].
  apply IH. apply tick_ok. exact Hok.
Qed.

Lemma reachable_ok ops : st_ok (state_after [] ops).
Proof. apply state_after_ok. exact st_ok_nil. Qed.

(** A link inside its probation window is reported not weak, whatever its signals. *)
Lemma probation_forces_not_weak st ls l :
  0 < s_pr (mem st (l_id l)) -> o_weak (verdict st ls l) = false.
Proof.
  intros Hp. destruct (o_weak (verdict st ls l)) eqn:Hw; [|reflexivity].
  assert (Hc := weak_is_classified _ _ _ Hw).
  destruct (classified_facts st ls l Hc) as (_ & _ & _ & _ & _ & _ & _ & _ & Hp1 & _).
  destruct (Hp1 Hp) as (H & _). congruence.
Qed.

Lemma probation_counts_down st ls l :
  classified ls l = true -> 0 < s_pr (mem st (l_id l)) ->
  s_pr (entry_after st ls l) = s_pr (mem st (l_id l)) - 1 /\ s_ws (entry_after st ls l) = 0.
Proof.
  intros Hc Hp. destruct (classified_facts st ls l Hc) as (_ & _ & _ & _ & _ & _ & _ & _ & Hp1 & _).
  destruct (Hp1 Hp) as (_ & _ & H1 & H2). split; assumption.
Qed.

(** A share-weak verdict advances the streak; the 15th arms a 3-tick window. *)
Lemma share_streak_step st ls l :
  entry_ok (mem st (l_id l)) -> share_verdict (verdict st ls l) = true ->
  classified ls l = true /\ s_pr (mem st (l_id l)) = 0 /\
  ((s_ws (mem st (l_id l)) + 1 < 15 /\ s_ws (entry_after st ls l) = s_ws (mem st (l_id l)) + 1 /\
    s_pr (entry_after st ls l) = 0) \/
   (s_ws (mem st (l_id l)) + 1 = 15 /\ s_ws (entry_after st ls l) = 0 /\
    s_pr (entry_after st ls l) = 3)).
Proof.
  intros Hok Hsv.
  assert (Hw : o_weak (verdict st ls l) = true).
  { unfold share_verdict in Hsv. apply andb_true_iff in Hsv. tauto. }
  assert (Hc := weak_is_classified _ _ _ Hw). split; [exact Hc|].
  destruct (Z_lt_le_dec 0 (s_pr (mem st (l_id l)))) as [Hpos|Hnp].
  { rewrite (probation_forces_not_weak st ls l Hpos) in Hw. discriminate. }
  destruct Hok as (Hd & Hws & Hp & _). split; [lia|].
  destruct (classified_facts st ls l Hc) as (_ & _ & _ & _ & _ & _ & _ & _ & _ & Hp2 & _).
  assert (HI : PROBATION_INTERVAL_TICKS = 15) by reflexivity.
  assert (HWn : PROBATION_WINDOW_TICKS = 3) by reflexivity.
  assert (Hs : sat_add_u32 (s_ws (mem st (l_id l))) 1 = s_ws (mem st (l_id l)) + 1).
  { unfold sat_add_u32, clamp, two32. lia. }
  rewrite Hs in Hp2. destruct (Hp2 Hnp Hsv) as [(A & B & C)|(A & B & C)]; [left|right]; lia.
Qed.

Lemma share_streak_reset st ls l :
  classified ls l = true -> s_pr (mem st (l_id l)) = 0 -> share_verdict (verdict st ls l) = false ->
  s_ws (entry_after st ls l) = 0 /\ s_pr (entry_after st ls l) = 0.
Proof.
  intros Hc Hp Hsv.
  destruct (classified_facts st ls l Hc) as (_ & _ & _ & _ & _ & _ & _ & _ & _ & _ & Hp3 & _).
  destruct (Hp3 ltac:(lia) Hsv) as (A & B). split; lia.
Qed.

(** Trace level: consecutive share-weak verdicts for one link id. *)
Fixpoint all_share_weak (id : Z) (st : fstate) (lss : list (list lin)) : Prop :=
  match lss with
  | [] => True
  | ls :: r => (exists l, In l ls /\ l_id l = id /\ share_verdict (verdict st ls l) = true) /\
               all_share_weak id (fst (tick st ls)) r
  end.

(** ... and the probation window that follows: not weak on every tick, for as long as the
    link has stayed classified (a disconnect / floor crossing forgets the link). *)
Fixpoint window_not_weak (id : Z) (st : fstate) (lss : list (list lin)) : Prop :=
  match lss with
  | [] => True
  | ls :: r => (forall l, In l ls -> l_id l = id -> o_weak (verdict st ls l) = false) /\
               ((exists l, In l ls /\ l_id l = id /\ classified ls l = true) ->
                window_not_weak id (fst (tick st ls)) r)
  end.

Lemma share_weak_run_bound id lss : forall st,
  st_ok st -> wf_ops lss -> all_share_weak id st lss ->
  Z.of_nat (length lss) + s_ws (mem st id) <= 15 /\
  (lss <> [] -> s_pr (mem st id) = 0 /\
     ((Z.of_nat (length lss) + s_ws (mem st id) < 15 /\ s_pr (mem (state_after st lss) id) = 0) \/
      (Z.of_nat (length lss) + s_ws (mem st id) = 15 /\ s_pr (mem (state_after st lss) id) = 3))).
Proof.
  induction lss as [|ls r IH]; intros st Hok Hwf Hall.
  - cbn [length]. destruct (Hok id) as (_ & Hw & _). split; [lia|]. intros H. congruence.
  - cbn [all_share_weak] in Hall. destruct Hall as ((l & Hin & Hid & Hsv) & Hrest).
    inversion Hwf as [|? ? Hnd Hwf']; subst.
    destruct (share_streak_step st ls l (Hok (l_id l)) Hsv) as (Hc & Hp0 & Hstep).
    assert (Hmem := mem_after_tick st ls l Hnd Hin Hc).
    assert (Hok' := tick_ok st ls Hok).
    destruct (IH (fst (tick st ls)) Hok' Hwf' Hrest) as (Hb & Hnext).
    rewrite Hmem in Hb. cbn [length state_after]. rewrite Nat2Z.inj_succ.
    destruct r as [|ls2 r2].
    + cbn [length state_after] in *. rewrite Hmem.
      split; [lia|]. intros _. split; [exact Hp0|]. destruct Hstep as [(A & B & C)|(A & B & C)]; [left|right]; lia.
    + destruct (Hnext ltac:(discriminate)) as (Hp1 & Hcase). rewrite Hmem in Hp1, Hcase.
      destruct Hstep as [(A & B & C)|(A & B & C)]; [|lia].
      split; [lia|]. intros _. split; [exact Hp0|].
      destruct Hcase as [(X & Y)|(X & Y)]; [left|right]; split; try lia; exact Y.
Qed.

Lemma probation_window id lss : forall st,
  wf_ops lss -> Z.of_nat (length lss) <= s_pr (mem st id) -> window_not_weak id st lss.
Proof.
  induction lss as [|ls r IH]; intros st Hwf Hp; cbn [window_not_weak]; [exact I|].
  cbn [length] in Hp. rewrite Nat2Z.inj_succ in Hp.
  inversion Hwf as [|? ? Hnd Hwf']; subst. split.
  - intros l _ Hid. apply probation_forces_not_weak. rewrite Hid. lia.
  - intros (l & Hin & Hid & Hc). apply IH; [exact Hwf'|].
    rewrite <- Hid. rewrite (mem_after_tick st ls l Hnd Hin Hc).
    destruct (probation_counts_down st ls l Hc ltac:(rewrite Hid; lia)) as (H1 & _).
    rewrite H1, Hid. lia.
Qed.

(** ---- clause 4: enter / leave thresholds ------------------------------------------------------ *)
Lemma enter_leave st ls l :
  classified ls l = true ->
  let n := conn_count ls in
  let pw := s_pw (mem st (l_id l)) in
  (low_share_verdict (verdict st ls l) = true -> pw = false -> share_of ls l < 250 / n) /\
  (low_share_verdict (verdict st ls l) = true -> pw = true -> share_of ls l < 750 / n) /\
  (o_weak (verdict st ls l) = false -> pw = true ->
     750 / n <= share_of ls l \/ 0 < s_pr (mem st (l_id l))) /\
  (o_weak (verdict st ls l) = false -> pw = false ->
     250 / n <= share_of ls l \/ 0 < s_pr (mem st (l_id l))).
Proof.
  intros Hc. destruct (classified_facts st ls l Hc) as
      (_ & _ & _ & _ & _ & _ & _ & _ & _ & _ & _ & H1 & H2 & H3 & H4 & _).
  cbv zeta. unfold share_of. repeat split; assumption.
Qed.

Lemma prev_weak_is_last_verdict st ls l :
  NoDup (map l_id ls) -> In l ls ->
  s_pw (mem (fst (tick st ls)) (l_id l)) = o_weak (verdict st ls l).
Proof.
  intros Hnd Hin. destruct (classified ls l) eqn:Hc.
  - rewrite (mem_after_tick st ls l Hnd Hin Hc).
    destruct (classified_facts st ls l Hc) as (_ & _ & _ & H & _). exact H.
  - rewrite (unclassified_forgotten st ls l Hnd Hin Hc). cbn [lst0 s_pw].
    destruct (o_weak (verdict st ls l)) eqn:Hw; [|reflexivity].
    apply weak_is_classified in Hw. congruence.
Qed.

Lemma reported_share_and_threshold st ls l :
  classified ls l = true ->
  o_share (verdict st ls l) = share_of ls l /\
  o_thr (verdict st ls l) = (if s_pw (mem st (l_id l)) then 750 / conn_count ls else 250 / conn_count ls).
Proof.
  intros Hc. destruct (classified_facts st ls l Hc) as (_ & H1 & H2 & _). split; assumption.
Qed.

(** ---- the simulation: model traces satisfy the monitor ------------------------------------------ *)
Definition rel (e : lst) (m : mst) : Prop :=
  m_pw m = s_pw e /\ (m_plow m = true -> s_pw e = true) /\
  (m_psig m = true <-> 1 <= s_ds e) /\ m_sw m = s_ws e /\ m_owed m = s_pr e /\ entry_ok e.
Definition rel_all (st : fstate) (ms : mstate) : Prop :=
  forall id, rel (mem st id) (lookup m0 ms id).

Lemma rel_default : rel lst0 m0.
Proof.
  unfold rel, lst0, m0. cbn. repeat split; try (intros; discriminate); try lia;
  try apply entry_ok_default.
Qed.

Lemma find_out_map (f : lin -> lout) ls l :
  (forall x, o_id (f x) = l_id x) -> NoDup (map l_id ls) -> In l ls ->
  find_out (l_id l) (map f ls) = Some (f l).
Proof.
  intros Hid. induction ls as [|x ls IH]; intros Hnd Hin; [contradiction|].
  cbn [map] in Hnd. inversion Hnd as [|? ? Hx Hnd']; subst.
  cbn [map find_out]. rewrite Hid. destruct Hin as [->|Hin].
  - rewrite Z.eqb_refl. reflexivity.
  - destruct (l_id x =? l_id l) eqn:Hk; [|apply IH; assumption].
    exfalso. apply Hx. apply Z.eqb_eq in Hk. rewrite Hk. apply in_map. exact Hin.
Qed.

Lemma first_nonzero_zero (l : list N) : (forall x, In x l -> x = 0%N) -> first_nonzero l = 0%N.
Proof.
  induction l as [|x l IH]; intros H; cbn [first_nonzero]; [reflexivity|].
  rewrite (H x (or_introl eq_refl)). cbn. apply IH. intros y Hy. apply H. right. exact Hy.
Qed.

(** One classified link: every clause holds and the bookkeeping stays related. *)
Lemma sim_link_classified n total sel e l o e' m ms outs :
  step_facts n total sel e l o e' -> rel e m ->
  l_conn l = true -> (total <? 0x1.86ap+16)%float = false -> (n =? 0) = false ->
  lookup m0 ms (l_id l) = m -> find_out (l_id l) outs = Some o ->
  exists m', mon_link n total sel ms outs l = (0%N, Some (l_id l, m')) /\ rel e' m'.
Proof.
  intros Hf Hr Hc Ht Hn Hm Hfo.
  unfold mon_link. rewrite Hfo, Hc, Ht, Hn, Hm. cbn [negb orb].
  destruct Hf as (_ & _ & _ & Hpw & Hds & Hdv & Hrr & Hrq & Hp1 & Hp2 & Hp3 & He1 & He2 & Hl1 & Hl2 & Hwr & Hnr).
  destruct Hr as (Rpw & Rlow & Rsig & Rsw & Rowed & Rok).
  destruct Rok as (Od & Ow & Op & Opw).
  assert (HW : WEAK_SUSTAIN_TICKS = 2) by reflexivity.
  assert (HI : PROBATION_INTERVAL_TICKS = 15) by reflexivity.
  assert (HWn : PROBATION_WINDOW_TICKS = 3) by reflexivity.
  assert (HE : ENTER_FAIR_SHARE_NUMERATOR = 250) by reflexivity.
  assert (HL : LEAVE_FAIR_SHARE_NUMERATOR = 750) by reflexivity.
  rewrite HE in *. rewrite HL in *. rewrite HW in *. rewrite HI in *. rewrite HWn in *.
  assert (Hsd : sat_add_u32 (s_ds e) 1 = Z.min u32_max (s_ds e + 1)).
  { unfold sat_add_u32, clamp, u32_max, two32 in *. lia. }
  assert (Hsw : sat_add_u32 (s_ws e) 1 = s_ws e + 1).
  { unfold sat_add_u32, clamp, two32. lia. }
  rewrite Hsd, Hsw in *.
  assert (Hu : 15 < u32_max) by (unfold u32_max, two32; lia).
  unfold delay_verdict, share_verdict, low_share_verdict in *.
  set (sig := (sel <? rtt_of l) || l_qb l) in *.
  set (share := share_pm (bps_of l) total) in *.
  rewrite Rowed, Rsw, Rpw.
  unfold implb', first_clause.
  assert (Hsigp : m_psig m = true -> 1 <= s_ds e) by (apply Rsig).
  assert (Hsigq : 1 <= s_ds e -> m_psig m = true) by (apply Rsig).
  destruct (o_weak o) eqn:Hw.
  - (* weak verdict *)
    destruct (Hwr eq_refl) as (HnH & HnB).
    destruct (Z_lt_le_dec 0 (s_pr e)) as [Hpos|Hnp]; [destruct (Hp1 Hpos) as (X & _); discriminate|].
    assert (Hp0 : (0 <? s_pr e) = false) by lia. rewrite Hp0.
    destruct (o_reason o) eqn:Hrsn; try congruence; cbn [is_delay_reason is_share_reason reason_eqb andb negb orb];
    rewrite ?andb_false_r; cbn [andb negb orb].
    + (* RR *) destruct (Hdv eq_refl) as (S1 & S2 & S3).
      assert (Hps : m_psig m = true) by (apply Hsigq; lia).
      rewrite S1, Hps. cbn [andb negb orb].
      destruct (Hp3 Hnp eq_refl) as (A & B).
      eexists. split; [reflexivity|].
      unfold rel, entry_ok. cbn [m_pw m_plow m_psig m_sw m_owed].
      rewrite Hpw, Hds, S1. repeat split; intros; try discriminate; try lia.
    + (* RQ *) destruct (Hdv eq_refl) as (S1 & S2 & S3).
      assert (Hps : m_psig m = true) by (apply Hsigq; lia).
      rewrite S1, Hps. cbn [andb negb orb].
      destruct (Hp3 Hnp eq_refl) as (A & B).
      eexists. split; [reflexivity|].
      unfold rel, entry_ok. cbn [m_pw m_plow m_psig m_sw m_owed].
      rewrite Hpw, Hds, S1. repeat split; intros; try discriminate; try lia.
    + (* RN *) destruct (Hp2 Hnp eq_refl) as [(A & B & C)|(A & B & C)].
      * assert (Hne : (s_ws e + 1 =? 15) = false) by lia. rewrite Hne.
        eexists. split; [reflexivity|].
        unfold rel, entry_ok. cbn [m_pw m_plow m_psig m_sw m_owed].
        rewrite Hpw, Hds. destruct sig; repeat split; intros; try discriminate; try lia.
      * assert (Hne : (s_ws e + 1 =? 15) = true) by lia. rewrite Hne.
        eexists. split; [reflexivity|].
        unfold rel, entry_ok. cbn [m_pw m_plow m_psig m_sw m_owed].
        rewrite Hpw, Hds. destruct sig; repeat split; intros; try discriminate; try lia.
    + (* RL *)
      assert (Hc4 : (negb (negb (s_pw e)) || (share <? 250 / n)) = true).
      { destruct (s_pw e) eqn:Hspw; cbn [negb orb]; [reflexivity|]. assert (X := He1 eq_refl eq_refl). lia. }
      rewrite Hc4.
      destruct (Hp2 Hnp eq_refl) as [(A & B & C)|(A & B & C)].
      * assert (Hne : (s_ws e + 1 =? 15) = false) by lia. rewrite Hne.
        eexists. split; [reflexivity|].
        unfold rel, entry_ok. cbn [m_pw m_plow m_psig m_sw m_owed].
        rewrite Hpw, Hds. destruct sig; repeat split; intros; try discriminate; try lia.
      * assert (Hne : (s_ws e + 1 =? 15) = true) by lia. rewrite Hne.
        eexists. split; [reflexivity|].
        unfold rel, entry_ok. cbn [m_pw m_plow m_psig m_sw m_owed].
        rewrite Hpw, Hds. destruct sig; repeat split; intros; try discriminate; try lia.
  - (* not weak *)
    cbn [andb negb orb]. rewrite ?andb_true_r, ?orb_true_r. cbn [negb].
    assert (Hc5 : (negb (m_plow m && (s_pr e =? 0)) || (750 / n <=? share)) = true).
    { destruct (m_plow m) eqn:Hlow; cbn [andb negb orb]; [|reflexivity].
      assert (Hspw := Rlow eq_refl). destruct (Hl1 eq_refl Hspw) as [X|X]; [|].
      - assert (Y : (750 / n <=? share) = true) by lia. rewrite Y. apply orb_true_r.
      - assert (Y : (s_pr e =? 0) = false) by lia. rewrite Y. reflexivity. }
    rewrite Hc5.
    destruct (Z_lt_le_dec 0 (s_pr e)) as [Hpos|Hnp].
    + assert (Hp0 : (0 <? s_pr e) = true) by lia. rewrite Hp0.
      destruct (Hp1 Hpos) as (_ & _ & A & B).
      eexists. split; [reflexivity|].
      unfold rel, entry_ok. cbn [m_pw m_plow m_psig m_sw m_owed].
      rewrite Hpw, Hds. destruct sig; repeat split; intros; try discriminate; try lia.
    + assert (Hp0 : (0 <? s_pr e) = false) by lia. rewrite Hp0.
      destruct (Hp3 Hnp eq_refl) as (A & B).
      eexists. split; [reflexivity|].
      unfold rel, entry_ok. cbn [m_pw m_plow m_psig m_sw m_owed].
      rewrite Hpw, Hds. destruct sig; repeat split; intros; try discriminate; try lia.
Qed.

Lemma sim_tick st ms ls :
  rel_all st ms -> NoDup (map l_id ls) ->
  fst (mon_tick ms ls (snd (tick st ls))) = 0%N /\
  rel_all (fst (tick st ls)) (snd (mon_tick ms ls (snd (tick st ls)))).
Proof.
  intros Hr Hnd. unfold mon_tick. cbn [fst snd]. rewrite tick_outs.
  destruct (bypassed ls) eqn:Hb.
  - (* bypassed tick: nobody weak, both memories emptied *)
    assert (Hall : forall l, In l ls ->
              mon_link (conn_count ls) (total_bps ls) (t_sel (snd (tick st ls))) ms
                       (map (verdict st ls) ls) l = (0%N, None)).
    { intros l Hin. unfold mon_link.
      rewrite (find_out_map (verdict st ls) ls l (verdict_id st ls) Hnd Hin).
      assert (Hbb := Hb). apply bypassed_iff in Hbb.
      destruct (never_weak_when st ls l (or_intror Hbb)) as (Hw & _). rewrite Hw.
      assert (Hcond : negb (l_conn l) || (total_bps ls <? 0x1.86ap+16)%float || (conn_count ls =? 0) = true).
      { destruct Hbb as [X|X]; [rewrite X; apply orb_true_iff; left; apply orb_true_r|].
        rewrite X. apply orb_true_r. }
      rewrite Hcond. reflexivity. }
    split.
    + apply first_nonzero_zero. intros x Hx. rewrite map_map in Hx. apply in_map_iff in Hx.
      destruct Hx as (l & Hl & Hin). rewrite (Hall l Hin) in Hl. cbn in Hl. congruence.
    + rewrite tick_state, Hb. rewrite map_map.
      rewrite (lookup_all_none m0); [intros id; exact rel_default|].
      intros l Hin. rewrite (Hall l Hin). reflexivity.
  - (* classified tick *)
    assert (Hbb : (total_bps ls <? 0x1.86ap+16)%float = false /\ (conn_count ls =? 0) = false).
    { unfold bypassed in Hb. rewrite min_total_eq in Hb. apply orb_false_iff in Hb. exact Hb. }
    destruct Hbb as (Ht & Hn).
    rewrite (tick_sel st ls Hb).
    assert (Hall : forall l, In l ls ->
              fst (mon_link (conn_count ls) (total_bps ls) (tier_of ls) ms (map (verdict st ls) ls) l) = 0%N /\
              match snd (link_step (conn_count ls) (total_bps ls) (tier_of ls) st l),
                    snd (mon_link (conn_count ls) (total_bps ls) (tier_of ls) ms (map (verdict st ls) ls) l) with
              | Some (k, a), Some (k', b) => k = k' /\ rel a b
              | None, None => True
              | _, _ => False
              end).
    { intros l Hin.
      assert (Hfo := find_out_map (verdict st ls) ls l (verdict_id st ls) Hnd Hin).
      destruct (l_conn l) eqn:Hc.
      - assert (Hcl : classified ls l = true) by (unfold classified; rewrite Hb, Hc; reflexivity).
        assert (Hf := classified_facts st ls l Hcl).
        destruct (sim_link_classified _ _ _ _ _ _ _ _ ms _ Hf (Hr (l_id l)) Hc Ht Hn eq_refl Hfo) as (m' & Hm & Hrel).
        rewrite Hm. cbn [fst snd]. split; [reflexivity|].
        rewrite (link_step_some _ _ _ st l Hc). split; [reflexivity|].
        unfold entry_after in Hrel. exact Hrel.
      - rewrite (link_step_none _ _ _ _ _ Hc). cbn [snd].
        unfold mon_link. rewrite Hfo, Hc. cbn [negb orb].
        destruct (never_weak_when st ls l (or_introl Hc)) as (Hw & _). rewrite Hw.
        cbn [fst snd]. split; [reflexivity|exact I]. }
    split.
    + apply first_nonzero_zero. intros x Hx. rewrite map_map in Hx. apply in_map_iff in Hx.
      destruct Hx as (l & Hl & Hin). destruct (Hall l Hin) as (H0 & _). congruence.
    + rewrite tick_state, Hb. rewrite map_map. unfold rel_all, mem.
      apply (lookup_rel rel lst0 m0); [exact rel_default|].
      intros l Hin. destruct (Hall l Hin) as (_ & H). exact H.
Qed.

Lemma sim_run ops : forall st ms,
  rel_all st ms -> wf_ops ops -> mon_from ms (run_from st ops) = 0%N.
Proof.
  induction ops as [|ls ops IH]; intros st ms Hr Hwf; cbn [run_from mon_from]; [reflexivity|].
  inversion Hwf as [|? ? Hnd Hwf']; subst.
  destruct (sim_tick st ms ls Hr Hnd) as (H0 & Hr').
  destruct (tick st ls) as [st' o] eqn:Htick. cbn [fst snd] in *.
  cbn [mon_from]. destruct (mon_tick ms ls o) as [c ms'] eqn:Hmt. cbn [fst snd] in *.
  subst c. cbn. apply IH; assumption.
Qed.

Theorem model_satisfies_monitor ops : wf_ops ops -> ok_C17 (run ops) = true.
Proof.
  intros Hwf. unfold ok_C17, run. rewrite (sim_run ops [] []); [reflexivity| |exact Hwf].
  intros id. exact rel_default.
Qed.

(** The boolean well-formedness test of [check_case] decides [wf_ops]. *)
Lemma nodupb_spec l : nodupb l = true -> NoDup l.
Proof.
  induction l as [|x l IH]; intros H; [constructor|].
  cbn [nodupb] in H. apply andb_true_iff in H. destruct H as [Hx Hl].
  constructor; [|apply IH; exact Hl].
  intros Hin. apply negb_true_iff in Hx.
  assert (existsb (Z.eqb x) l = true) by (apply existsb_exists; exists x; split; [exact Hin|apply Z.eqb_refl]).
  congruence.
Qed.

Lemma wf_opsb_spec ops : wf_opsb ops = true -> wf_ops ops.
Proof.
  unfold wf_opsb, wf_ops. intros H. apply Forall_forall. intros ls Hin.
  apply nodupb_spec. rewrite forallb_forall in H. apply H. exact Hin.
Qed.
