(** ClassifierP.v — lemmas about the classifier model (Model/Classifier.v).
    All float operations stay opaque: every statement is about the discrete core,
    with shares / totals / tiers being whatever the float front-end computes. *)
From Coq Require Import Floats ZifyBool.
From Srtla Require Import Base Constants FConstants Classifier.
Local Open Scope Z_scope.
Ltac Zify.zify_post_hook ::= Z.div_mod_to_equations.

(** ---- constants ------------------------------------------------------------------ *)
Lemma min_total_eq : MIN_TOTAL_BPS_FOR_CLASSIFICATION = 0x1.86ap+16%float.
Proof. reflexivity. Qed.

Lemma classifier_constants :
  MIN_TOTAL_BPS_FOR_CLASSIFICATION = 0x1.86ap+16%float /\
  MIN_TOTAL_BPS_FOR_CLASSIFICATION_micro = 100000 * 1000000 /\
  WEAK_SUSTAIN_TICKS = 2 /\ PROBATION_INTERVAL_TICKS = 15 /\ PROBATION_WINDOW_TICKS = 3 /\
  ENTER_FAIR_SHARE_NUMERATOR = 250 /\ LEAVE_FAIR_SHARE_NUMERATOR = 750 /\
  4 * ENTER_FAIR_SHARE_NUMERATOR = 1000 /\ 4 * LEAVE_FAIR_SHARE_NUMERATOR = 3 * 1000.
Proof. repeat split; reflexivity. Qed.

(** ---- association lists ------------------------------------------------------------ *)
Lemma lookup_rel {A B} (R : A -> B -> Prop) (da : A) (db : B)
      (f : lin -> option (Z * A)) (g : lin -> option (Z * B)) (ls : list lin) :
  R da db ->
  (forall l, In l ls ->
     match f l, g l with
     | Some (k, a), Some (k', b) => k = k' /\ R a b
     | None, None => True
     | _, _ => False
     end) ->
  forall id, R (lookup da (keep_some (map f ls)) id) (lookup db (keep_some (map g ls)) id).
Proof.
  intros Hd. induction ls as [|l ls IH]; intros H id; cbn [map keep_some lookup]; [exact Hd|].
  assert (Hl := H l (or_introl eq_refl)).
  assert (IH' := IH (fun l' Hin => H l' (or_intror Hin)) id).
  destruct (f l) as [[k a]|], (g l) as [[k' b]|]; try contradiction; [|exact IH'].
  destruct Hl as [-> HR]. cbn [lookup]. destruct (k' =? id); assumption.
Qed.

Lemma lookup_all_none {A} (d : A) (f : lin -> option (Z * A)) ls :
  (forall l, In l ls -> f l = None) -> keep_some (map f ls) = [].
Proof.
  induction ls as [|l ls IH]; intros H; cbn [map keep_some]; [reflexivity|].
  rewrite (H l (or_introl eq_refl)). apply IH. intros l' Hin. apply H. right. exact Hin.
Qed.

(** Looking up the entry written by a given link: with distinct ids it is that link's. *)
Lemma lookup_written {A} (d : A) (f : lin -> option (Z * A)) ls l a :
  NoDup (map l_id ls) -> In l ls ->
  (forall l', In l' ls -> match f l' with Some (k, _) => k = l_id l' | None => True end) ->
  f l = Some (l_id l, a) ->
  lookup d (keep_some (map f ls)) (l_id l) = a.
Proof.
  induction ls as [|x ls IH]; intros Hnd Hin Hk Hf; [contradiction|].
  cbn [map] in Hnd. inversion Hnd as [|? ? Hx Hnd']; subst.
  cbn [map keep_some]. destruct Hin as [->|Hin].
  - rewrite Hf. cbn [lookup]. rewrite Z.eqb_refl. reflexivity.
  - assert (Hkx := Hk x (or_introl eq_refl)).
    destruct (f x) as [[k a']|] eqn:Hfx.
    + cbn [lookup]. destruct (k =? l_id l) eqn:Hkl.
      * exfalso. apply Hx. apply Z.eqb_eq in Hkl. subst k. rewrite Hkl. apply in_map. exact Hin.
      * apply IH; auto. intros l' Hl'. apply Hk. right. exact Hl'.
    + apply IH; auto. intros l' Hl'. apply Hk. right. exact Hl'.
Qed.

(** An entry found by id was written by some link carrying that id. *)
Lemma lookup_found {A} (d : A) (P : A -> Prop) (f : lin -> option (Z * A)) ls id :
  ~ P d -> P (lookup d (keep_some (map f ls)) id) ->
  exists l a, In l ls /\ f l = Some (id, a) /\ P a.
Proof.
  intros Hd. induction ls as [|x ls IH]; cbn [map keep_some lookup]; intros H; [contradiction|].
  destruct (f x) as [[k a]|] eqn:Hfx.
  - cbn [lookup] in H. destruct (k =? id) eqn:Hk.
    + apply Z.eqb_eq in Hk. subst k. exists x, a. split; [left; reflexivity|]. split; assumption.
    + destruct (IH H) as (l & a' & Hin & Hf & HP). exists l, a'. split; [right; exact Hin|]. split; assumption.
  - destruct (IH H) as (l & a' & Hin & Hf & HP). exists l, a'. split; [right; exact Hin|]. split; assumption.
Qed.

(** ---- shape of one tick --------------------------------------------------------------- *)
Lemma tick_outs st ls : t_outs (snd (tick st ls)) = map (verdict st ls) ls.
Proof.
  unfold tick, verdict. destruct (bypassed ls); cbn [snd t_outs]; [reflexivity|].
  rewrite map_map. reflexivity.
Qed.

Lemma tick_sel st ls : bypassed ls = false -> t_sel (snd (tick st ls)) = tier_of ls.
Proof. intros H. unfold tick. rewrite H. reflexivity. Qed.

Lemma tick_state st ls :
  fst (tick st ls) =
  if bypassed ls then []
  else keep_some (map (fun l => snd (link_step (conn_count ls) (total_bps ls) (tier_of ls) st l)) ls).
Proof.
  unfold tick. destruct (bypassed ls); cbn [fst]; [reflexivity|]. rewrite map_map. reflexivity.
Qed.

Lemma tick_st_dump st ls : t_st (snd (tick st ls)) = fst (tick st ls).
Proof. unfold tick. destruct (bypassed ls); reflexivity. Qed.

Lemma link_step_key n total sel st l :
  match snd (link_step n total sel st l) with Some (k, _) => k = l_id l | None => True end.
Proof.
  unfold link_step. destruct (l_conn l); cbn [negb]; [|exact I].
  repeat match goal with |- context [if ?c then _ else _] => destruct c end; reflexivity.
Qed.

Lemma link_step_some n total sel st l :
  l_conn l = true ->
  snd (link_step n total sel st l) = Some (l_id l, match snd (link_step n total sel st l) with Some (_, e) => e | None => lst0 end).
Proof.
  intros Hc. unfold link_step. rewrite Hc. cbn [negb].
  repeat match goal with |- context [if ?c then _ else _] => destruct c end; reflexivity.
Qed.

Lemma link_step_none n total sel st l :
  l_conn l = false -> link_step n total sel st l = (V (l_id l) false RH 0 0, None).
Proof. intros Hc. unfold link_step. rewrite Hc. reflexivity. Qed.

Lemma verdict_id st ls l : o_id (verdict st ls l) = l_id l.
Proof.
  unfold verdict. destruct (bypassed ls); [reflexivity|].
  unfold link_step. destruct (l_conn l); cbn [negb]; [|reflexivity].
  repeat match goal with |- context [if ?c then _ else _] => destruct c end; reflexivity.
Qed.

(** Memory after a tick, for a classified link with distinct ids: the entry it wrote. *)
Lemma mem_after_tick st ls l :
  NoDup (map l_id ls) -> In l ls -> classified ls l = true ->
  mem (fst (tick st ls)) (l_id l) = entry_after st ls l.
Proof.
  intros Hnd Hin Hc. unfold classified in Hc. apply andb_true_iff in Hc. destruct Hc as [Hb Hc].
  apply negb_true_iff in Hb. rewrite tick_state, Hb. unfold mem, entry_after.
  apply lookup_written; auto.
  - intros l' _. apply link_step_key.
  - apply link_step_some. exact Hc.
Qed.

(** Keys of the memory after a tick are exactly the classified links, in order. *)
Lemma tick_keys st ls : map fst (fst (tick st ls)) = map l_id (filter (classified ls) ls).
Proof.
  rewrite tick_state. unfold classified. destruct (bypassed ls); cbn [negb andb].
  - induction ls; cbn; auto.
  - generalize (conn_count ls) (total_bps ls) (tier_of ls). intros n t s.
    induction ls as [|l ls IH]; [reflexivity|]. cbn [map filter keep_some].
    destruct (l_conn l) eqn:Hc.
    + rewrite (link_step_some n t s st l Hc). cbn [keep_some map fst]. rewrite IH. reflexivity.
    + rewrite (link_step_none n t s st l Hc). cbn [snd keep_some]. exact IH.
Qed.

(** ---- the per-link decision, unfolded once ------------------------------------------- *)

(** Everything the theorems need about one classified link, as one record of facts. *)
Definition step_facts (n : Z) (total : float) (sel : Z) (e : lst) (l : lin) (o : lout) (e' : lst) : Prop :=
  let sig := (sel <? rtt_of l) || l_qb l in
  let share := share_pm (bps_of l) total in
  o_id o = l_id l /\ o_share o = share /\
  o_thr o = (if s_pw e then LEAVE_FAIR_SHARE_NUMERATOR / n else ENTER_FAIR_SHARE_NUMERATOR / n) /\
  s_pw e' = o_weak o /\
  (* delay streak *)
  s_ds e' = (if sig then sat_add_u32 (s_ds e) 1 else 0) /\
  (delay_verdict o = true -> sig = true /\ WEAK_SUSTAIN_TICKS <= sat_add_u32 (s_ds e) 1 /\ s_pr e <= 0) /\
  (o_reason o = RR -> o_weak o = true -> (sel <? rtt_of l) = true) /\
  (o_reason o = RQ -> o_weak o = true -> l_qb l = true) /\
  (* probation *)
  (0 < s_pr e -> o_weak o = false /\ o_reason o = RH /\ s_pr e' = s_pr e - 1 /\ s_ws e' = 0) /\
  (s_pr e <= 0 -> share_verdict o = true ->
     (sat_add_u32 (s_ws e) 1 < PROBATION_INTERVAL_TICKS /\ s_ws e' = sat_add_u32 (s_ws e) 1 /\ s_pr e' = s_pr e) \/
     (PROBATION_INTERVAL_TICKS <= sat_add_u32 (s_ws e) 1 /\ s_ws e' = 0 /\ s_pr e' = PROBATION_WINDOW_TICKS)) /\
  (s_pr e <= 0 -> share_verdict o = false -> s_ws e' = 0 /\ s_pr e' = s_pr e) /\
  (* enter / leave *)
  (low_share_verdict o = true -> s_pw e = false -> share < ENTER_FAIR_SHARE_NUMERATOR / n) /\
  (low_share_verdict o = true -> s_pw e = true -> share < LEAVE_FAIR_SHARE_NUMERATOR / n) /\
  (o_weak o = false -> s_pw e = true -> LEAVE_FAIR_SHARE_NUMERATOR / n <= share \/ 0 < s_pr e) /\
  (o_weak o = false -> s_pw e = false -> ENTER_FAIR_SHARE_NUMERATOR / n <= share \/ 0 < s_pr e) /\
  (o_weak o = true -> o_reason o <> RH /\ o_reason o <> RB) /\
  (o_weak o = false -> o_reason o = RH).

Lemma link_step_facts n total sel st l :
  l_conn l = true ->
  exists o e', link_step n total sel st l = (o, Some (l_id l, e')) /\
               step_facts n total sel (mem st (l_id l)) l o e'.
Proof.
  intros Hc. unfold link_step, mem. rewrite Hc. cbn [negb].
  set (e := lookup lst0 st (l_id l)).
  unfold delay_signal.
  assert (HW : WEAK_SUSTAIN_TICKS = 2) by reflexivity.
  destruct (sel <? rtt_of l) eqn:Hrtt; [|destruct (l_qb l) eqn:Hqb];
  cbv zeta;
  repeat (cbn [fst snd is_share_reason andb];
          match goal with
          | |- context [if ?c then _ else _] => destruct c eqn:?
          end);
  cbn [fst snd is_share_reason andb] in *;
  eexists; eexists; (split; [reflexivity|]);
  unfold step_facts, delay_verdict, share_verdict, low_share_verdict, is_share_reason;
  cbn [o_id o_weak o_reason o_share o_thr s_pw s_ds s_ws s_pr fst snd andb orb negb];
  rewrite ?Hrtt, ?Hqb; cbn [orb];
  repeat match goal with
         | H : (_ && _) = true |- _ => apply andb_true_iff in H; destruct H
         | H : (_ && _) = false |- _ => apply andb_false_iff in H
         | H : negb _ = true |- _ => apply negb_true_iff in H
         | H : negb _ = false |- _ => apply negb_false_iff in H
         end;
  repeat match goal with
         | H : s_pw e = _ |- _ => rewrite H in *
         end;
  repeat split; intros; try discriminate; try congruence; try lia.
Qed.

(** The [delay_signal.unwrap()] of the sustained-delay arm is only reached with [Some]:
    without a signal the streak is 0, below [WEAK_SUSTAIN_TICKS]. *)
Lemma no_unwrap_panic sel l (e : lst) :
  (WEAK_SUSTAIN_TICKS <=? match delay_signal sel l with
                          | Some _ => sat_add_u32 (s_ds e) 1
                          | None => 0
                          end) = true ->
  delay_signal sel l <> None.
Proof. destruct (delay_signal sel l); [discriminate|]. cbn. discriminate. Qed.
