(** LeafCcP.v — integer / comparison helpers of the per-link congestion controller (crates/srtla-core/src/
    selection/link_cc.rs) as regenerated from the Rust source on every run (coq/Gen/LeafCc.v) = Model/LinkCc.v
    (C16).  See DESIGN.md §12.8 (third batch).

    [loss_permille], [update_backoff_efficacy], [observe_traffic] (up to its last effect, the call of the
    untranslated [record_loss] — Vec of samples and the eviction loop — whose arguments are an explicit output),
    [pick_climb_mode] and [update_rtt_min] (f64 comparisons bit-exactly).  The step / back-off arithmetic of
    [tick] itself is f64 in the source and integer in the model (tied by Proofs/LinkCcFP.v), not a leaf.
    Narrowing casts are written as the Rust semantics ([as u32] = mod 2^32); the lemmas show they are the
    identity where the model has none. *)
From Coq Require Import List Floats.
From Srtla Require Import Base Constants FConstants LeafCc LeafTac.
From Srtla Require LinkCc.
From Coq Require Import ZifyBool.
Local Open Scope Z_scope.

Definition st_of (s : LinkCc.cc_state) : CcState :=
  match s with
  | LinkCc.Bootstrap => CcState_Bootstrap | LinkCc.Climbing => CcState_Climbing | LinkCc.Holding => CcState_Holding
  | LinkCc.BackingOff => CcState_BackingOff | LinkCc.Drain => CcState_Drain
  end.
Definition md_to (m : ClimbMode) : LinkCc.climb_mode :=
  match m with
  | ClimbMode_Normal => LinkCc.Normal | ClimbMode_Hai => LinkCc.Hai | ClimbMode_FastRecovery => LinkCc.FastRecovery
  end.

Ltac cc_enum := repeat match goal with x : LinkCc.cc_state |- _ => destruct x | x : LinkCc.climb_mode |- _ => destruct x end.
(* division / remainder by literals, after every condition has been split *)
Ltac cc_arith := first [ reflexivity | lia | (Z.to_euclidean_division_equations; lia) ].
Ltac cc_eq :=
  lazymatch goal with
  | |- @eq Z _ _ => cc_arith
  | |- @eq bool _ _ => first [ reflexivity | lia | congruence ]
  | |- _ /\ _ => split; cc_eq
  | |- ?f _ = ?g _ => first [ reflexivity | (f_equal; cc_eq) | congruence ]
  | |- _ => first [ reflexivity | congruence | cc_arith ]
  end.
Ltac cc_auto :=
  cbv beta zeta; intros; leaf_records; leaf_hyps; cc_enum; leaf_unfold2; cbn [negb andb orb];
  leaf_split2; first [ reflexivity | (exfalso; lia) | (exfalso; congruence) | cc_eq ].

(** u32 fields are non-negative; nothing else is assumed *)
Lemma leaf_cc_loss_permille_ok w :
  0 <= LinkCc.w_lost w -> 0 <= LinkCc.w_sent w ->
  LinkCc.loss_permille w = leaf_cc_loss_permille (LinkCc.w_lost w) (LinkCc.w_sent w).
Proof.
  intros Hl Hs. unfold LinkCc.loss_permille.
  assert (Hq : forall a b, 0 <= a -> 0 < b -> Z.quot a b = a / b) by (intros; apply Z.quot_div_nonneg; assumption).
  assert (Hm : 0 <= sat_mul_u64 (LinkCc.w_lost w) 1000) by (unfold sat_mul_u64, sat_u64, clamp, u64_max, two64; lia).
  destruct (LinkCc.w_sent w =? 0) eqn:E.
  - first [ solve [ unfold leaf_cc_loss_permille; rewrite E; reflexivity ] | solve [ revert E; generalize (LinkCc.w_sent w), (LinkCc.w_lost w); cc_auto ] ].
  - assert (0 <= sat_mul_u64 (LinkCc.w_lost w) 1000 / LinkCc.w_sent w) by (apply Z.div_pos; lia).
    first [ solve [ unfold leaf_cc_loss_permille; rewrite E; cbv zeta; rewrite Hq by lia;
                    rewrite Z.mod_small; [ reflexivity | unfold two32; lia ] ]
          | solve [ unfold leaf_cc_loss_permille; cbv zeta; rewrite ?Hq by lia;
                    generalize dependent (sat_mul_u64 (LinkCc.w_lost w) 1000 / LinkCc.w_sent w); intros q ? ;
                    revert E; generalize (LinkCc.w_sent w); unfold two32; intros;
                    repeat match goal with |- context [if ?b then _ else _] => destruct b eqn:? end;
                    rewrite ?Z.mod_small by lia; lia ] ].
Qed.

Lemma leaf_cc_update_backoff_efficacy_ok e st loss_high loss_pm :
  LinkCc.update_backoff_efficacy e st loss_high loss_pm =
  let '(bt, pm, unc, ut) :=
    leaf_cc_update_backoff_efficacy (st_of st) (LinkCc.e_ticks e) (LinkCc.e_entry_pm e) (LinkCc.e_unc e)
                                    (LinkCc.e_unc_ticks e) loss_high loss_pm in
  LinkCc.mkEff bt pm unc ut.
Proof. first [ solve [ destruct e, st, loss_high; cbn; reflexivity ] | solve [ cc_auto ] ]. Qed.

(** observe_traffic: the cumulative-counter baseline, and — when a sample is due — the arguments [record_loss] is
    called with as the last effect *)
Lemma leaf_cc_observe_traffic_ok w bytes nak now :
  LinkCc.observe_traffic w bytes nak now =
  match leaf_cc_observe_traffic (LinkCc.w_prev_bytes w) (LinkCc.w_prev_nak w) (LinkCc.w_baseline w) bytes nak now with
  | (pb, pn, bl, Some (sent, lost, t)) =>
      LinkCc.record_loss (LinkCc.mkWin (LinkCc.w_samples w) (LinkCc.w_lost w) (LinkCc.w_sent w) pb pn bl) sent lost t
  | (pb, pn, bl, None) => LinkCc.mkWin (LinkCc.w_samples w) (LinkCc.w_lost w) (LinkCc.w_sent w) pb pn bl
  end.
Proof.
  destruct w as [sm wl ws pb pn bl]. unfold LinkCc.observe_traffic, leaf_cc_observe_traffic.
  cbn [LinkCc.w_prev_bytes LinkCc.w_prev_nak LinkCc.w_baseline LinkCc.w_samples LinkCc.w_lost LinkCc.w_sent].
  generalize (LinkCc.record_loss) as RL. intros RL.
  leaf_unfold2; cbn [negb andb orb]; leaf_split2;
    first [ reflexivity | (exfalso; lia) | (exfalso; Z.to_euclidean_division_equations; lia)
          | (f_equal; cc_eq) | cc_eq ].
Qed.

Lemma leaf_cc_pick_climb_mode_ok r fr :
  LinkCc.pick_climb_mode r fr = md_to (leaf_cc_pick_climb_mode (LinkCc.r_ewma r) (LinkCc.r_var r) fr).
Proof. first [ solve [ unfold LinkCc.pick_climb_mode, leaf_cc_pick_climb_mode; destruct (0 <? fr); [ reflexivity | ];
                       unfold LinkCc.f_lt, LinkCc.f_le, LinkCc.fzero;
                       match goal with |- context [if ?b then _ else _] => destruct b end; reflexivity ]
             | solve [ cc_auto ] ]. Qed.

Lemma leaf_cc_update_rtt_min_ok r ewma var last rtt now :
  LinkCc.update_rtt_min r ewma var last rtt now =
  let '(m, stamp) := leaf_cc_update_rtt_min (LinkCc.r_min r) (LinkCc.r_min_stamp r) rtt now in
  LinkCc.mkRtt ewma var m stamp last.
Proof. first [ solve [ unfold LinkCc.update_rtt_min, leaf_cc_update_rtt_min, LinkCc.f_is_finite, LinkCc.f_lt; cbv zeta;
                       match goal with |- context [if ?b then _ else _] => destruct b end; reflexivity ]
             | solve [ cc_auto ] ]. Qed.
