(** ClassicInvP.v — lemmas for C10, part 2: packet-log facts, preservation of the link
    invariant by every handler of Model/Conn.v the classic shell uses, and the window
    rules of the model against the reference's (ref_ack_earned, ref_ack_global, ref_nak). *)
From Coq Require Import ZifyBool Permutation.
From Srtla Require Import Base Constants Conn ConnP Classic ClassicRef ClassicP.

(** ---- packet log ---- *)
Lemma map_fst_log_remove k l :
  map fst (log_remove k l) = filter (fun x => negb (x =? k)) (map fst l).
Proof.
  induction l as [|[k' v] l IH]; cbn; [reflexivity|].
  destruct (k' =? k); cbn; [exact IH|]. rewrite IH. reflexivity.
Qed.

Lemma log_mem_In k l : log_mem k l = true <-> In k (map fst l).
Proof.
  unfold log_mem. rewrite existsb_exists. split.
  - intros (p & Hp & E). apply Z.eqb_eq in E. subst. apply in_map. exact Hp.
  - intros H. apply in_map_iff in H. destruct H as (p & E & Hp). exists p. split; [exact Hp|]. lia.
Qed.

Lemma log_remove_notin k l : ~ In k (map fst l) -> log_remove k l = l.
Proof.
  induction l as [|[k' v] l IH]; cbn; intros H; [reflexivity|].
  destruct (k' =? k) eqn:E; [exfalso; apply H; left; lia|].
  rewrite IH; [reflexivity|]. intros H1. apply H. right. exact H1.
Qed.

Lemma log_remove_length k l :
  NoDup (map fst l) -> log_mem k l = true -> S (length (log_remove k l)) = length l.
Proof.
  induction l as [|[k' v] l IH]; cbn; intros Hn Hm; [discriminate|].
  inversion Hn as [|? ? Hni Hn']; subst.
  destruct (k' =? k) eqn:E.
  - assert (k' = k) by lia. subst. rewrite log_remove_notin by exact Hni. reflexivity.
  - cbn in Hm. cbn. f_equal. apply IH; [exact Hn'|]. exact Hm.
Qed.

Lemma nodup_map_filter {A} (f : A -> Z) (p : A -> bool) l :
  NoDup (map f l) -> NoDup (map f (filter p l)).
Proof.
  induction l as [|x l IH]; cbn; intros H; [constructor|].
  inversion H as [|? ? Hni Hn]; subst.
  destruct (p x); cbn; [constructor|]; auto.
  intros Hin. apply Hni. apply in_map_iff in Hin. destruct Hin as (y & E & Hy).
  apply filter_In in Hy. rewrite <- E. apply in_map. tauto.
Qed.

Lemma log_remove_nodup k l : NoDup (map fst l) -> NoDup (map fst (log_remove k l)).
Proof. intros H. rewrite map_fst_log_remove. apply NoDup_filter. exact H. Qed.

Lemma log_insert_nodup k v l : NoDup (map fst l) -> NoDup (map fst (log_insert k v l)).
Proof.
  intros H. unfold log_insert. cbn. constructor; [|apply log_remove_nodup; exact H].
  rewrite map_fst_log_remove. intros Hin. apply filter_In in Hin. destruct Hin as [_ E].
  rewrite Z.eqb_refl in E. discriminate.
Qed.

(** ---- window rules against the reference ---- *)
Lemma ack_window w inf :
  0 <= w <= WB -> 0 <= inf -> fst (ack_classic w inf) = ref_ack_earned w inf.
Proof.
  intros Hw Hi. rewrite WB_val in Hw. destruct consts as (K1 & K2 & _ & _ & K5 & _).
  unfold ack_classic, ref_ack_earned. rewrite K2, K5.
  replace (w + WINDOW_INCR - 1) with (w + 29) by lia.
  unfold sat_mul_i32, sat_i32, clamp, i32_min, i32_max, two31.
  match goal with |- fst (if ?b then _ else _) = _ => assert (Hb : b = (w <? inf * 1000)) by lia; rewrite Hb end.
  destruct (w <? inf * 1000); reflexivity.
Qed.

Lemma ack_window_bound w inf : 0 <= w <= WB -> 0 <= ref_ack_earned w inf <= WB.
Proof. intros H. rewrite WB_val in *. unfold ref_ack_earned. destruct (w <? inf * 1000); lia. Qed.

Lemma cong_nak_window c w now : snd (fst (cong_nak c w now)) = Z.max (w - WINDOW_DECR) WINDOW_FLOOR.
Proof.
  unfold cong_nak.
  destruct ((0 <? last_nak c) && (ssub now (last_nak c) <? NAK_BURST_WINDOW_MS));
    [destruct (burst c =? 0)|]; reflexivity.
Qed.

Lemma nak_ref w : Z.max (w - WINDOW_DECR) WINDOW_FLOOR = ref_nak w.
Proof. destruct consts as (_ & _ & K3 & K4 & _). rewrite K3, K4. reflexivity. Qed.

Lemma ref_nak_bound w : 0 <= w <= WB -> 0 <= ref_nak w <= WB.
Proof. intros H. rewrite WB_val in *. unfold ref_nak. lia. Qed.

Lemma global_bound c r w : 0 <= w <= WB -> 0 <= ref_ack_global c r w <= WB.
Proof. intros H. rewrite WB_val in *. unfold ref_ack_global. destruct (c && r); lia. Qed.

(** ---- the invariant is preserved ---- *)
Lemma inv_link0 id : inv_link (link0 id).
Proof.
  destruct consts as (_ & _ & _ & _ & _ & K6).
  unfold inv_link, link0. cbn [in_flight log window map]. rewrite K6, WB_val.
  split; [reflexivity|]. split; [constructor|lia].
Qed.

Lemma inv_register c seq t : inv_link c -> inv_link (register_packet c seq t).
Proof.
  intros (H1 & H2 & H3). unfold inv_link, register_packet. cbn [in_flight log window].
  split; [reflexivity|]. split; [exact (log_insert_nodup seq t _ H2)|exact H3].
Qed.

Lemma inv_register_all q : forall c, inv_link c -> inv_link (register_all c q).
Proof.
  unfold register_all. induction q as [|[sq t] q IH]; intros c H; cbn; [exact H|].
  apply IH. destruct sq; cbn; [apply inv_register|]; exact H.
Qed.

Lemma inv_srt_ack c a : inv_link c -> inv_link (handle_srt_ack c a).
Proof.
  intros (H1 & H2 & H3). unfold handle_srt_ack.
  destruct (a <=? hwm c); [exact (conj H1 (conj H2 H3))|].
  unfold inv_link. cbn [in_flight log window]. split; [reflexivity|]. split; [|exact H3].
  destruct ((Z.abs (a - hwm c) <=? ACK_FAST_PATH_RANGE) && negb (hwm c =? i32_min));
    apply nodup_map_filter; exact H2.
Qed.

Lemma nak_fst c seq now :
  fst (handle_nak c seq now) =
  if log_mem seq (log c) then
    {| cid := cid c; connected := connected c; window := Z.max (window c - WINDOW_DECR) WINDOW_FLOOR;
       in_flight := blen (log_remove seq (log c)); log := log_remove seq (log c); hwm := hwm c;
       last_recv := last_recv c; proof := proof c; cg := fst (fst (cong_nak (cg c) (window c) now));
       ovf := ovf c || snd (cong_nak (cg c) (window c) now) |}
  else c.
Proof.
  unfold handle_nak. destruct (log_mem seq (log c)); [|reflexivity].
  pose proof (cong_nak_window (cg c) (window c) now) as Hw.
  destruct (cong_nak (cg c) (window c) now) as [[g w] o]. cbn in *. subst w. reflexivity.
Qed.

Lemma inv_nak c seq now : inv_link c -> inv_link (fst (handle_nak c seq now)).
Proof.
  intros (H1 & H2 & H3). rewrite nak_fst. destruct (log_mem seq (log c)); [|exact (conj H1 (conj H2 H3))].
  unfold inv_link. cbn [in_flight log window]. split; [reflexivity|]. split; [apply log_remove_nodup; exact H2|].
  rewrite nak_ref. apply ref_nak_bound. exact H3.
Qed.

Lemma specific_fst c seq now :
  fst (handle_srtla_ack_specific c seq true now) =
  if log_mem seq (log c) then
    {| cid := cid c; connected := connected c;
       window := fst (ack_classic (window c) (blen (log_remove seq (log c))));
       in_flight := blen (log_remove seq (log c)); log := log_remove seq (log c); hwm := hwm c;
       last_recv := last_recv c; proof := now; cg := cg c;
       ovf := ovf c || snd (ack_classic (window c) (blen (log_remove seq (log c)))) |}
  else c.
Proof.
  unfold handle_srtla_ack_specific. destruct (log_mem seq (log c)); [|reflexivity].
  destruct (ack_classic (window c) (blen (log_remove seq (log c)))) as [w o]. reflexivity.
Qed.

Lemma inv_specific c seq now : inv_link c -> inv_link (fst (handle_srtla_ack_specific c seq true now)).
Proof.
  intros (H1 & H2 & H3). rewrite specific_fst. destruct (log_mem seq (log c)); [|exact (conj H1 (conj H2 H3))].
  unfold inv_link. cbn [in_flight log window]. split; [reflexivity|]. split; [apply log_remove_nodup; exact H2|].
  rewrite ack_window by (try exact H3; apply blen_nonneg). apply ack_window_bound. exact H3.
Qed.

Lemma global_window c :
  window (handle_srtla_ack_global c) =
  ref_ack_global (connected c) (match last_recv c with Some _ => true | None => false end) (window c).
Proof.
  unfold handle_srtla_ack_global, ref_ack_global. destruct consts as (_ & _ & _ & _ & K5 & _).
  destruct (connected c && match last_recv c with Some _ => true | None => false end); cbn [window];
    [rewrite K5|]; reflexivity.
Qed.

Lemma inv_global c : inv_link c -> inv_link (handle_srtla_ack_global c).
Proof.
  intros (H1 & H2 & H3). pose proof (global_window c) as Hw.
  pose proof (global_bound (connected c) (match last_recv c with Some _ => true | None => false end) _ H3) as Hb.
  rewrite <- Hw in Hb. unfold inv_link. revert Hb. unfold handle_srtla_ack_global.
  destruct (connected c && match last_recv c with Some _ => true | None => false end);
    cbn [in_flight log window]; intros Hb; (split; [exact H1|]); (split; [exact H2|exact Hb]).
Qed.

Lemma inv_reg3 c now : inv_link c -> inv_link (reg3_core c now).
Proof.
  intros _. unfold inv_link, reg3_core. cbn [in_flight log window map].
  destruct consts as (_ & _ & _ & _ & _ & K6). rewrite K6, WB_val. split; [reflexivity|]. split; [constructor|lia].
Qed.

Lemma inv_mark c : inv_link c -> inv_link (mark_for_recovery c).
Proof.
  intros _. unfold inv_link, mark_for_recovery, reset_core. cbn [in_flight log window map].
  destruct consts as (_ & _ & _ & _ & _ & K6). rewrite K6, WB_val. split; [reflexivity|]. split; [constructor|lia].
Qed.

Lemma inv_set_conn c b lr : inv_link c -> inv_link (set_conn c b lr).
Proof. intros H. exact H. Qed.

Lemma inv_set_window c w : 0 <= w <= WB -> inv_link c -> inv_link (set_window c w).
Proof.
  intros Hw (H1 & H2 & _). unfold inv_link, set_window. cbn [in_flight log window].
  split; [exact H1|]. split; [exact H2|exact Hw].
Qed.
