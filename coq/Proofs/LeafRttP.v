(** LeafRttP.v — the f64 smoothing path behind the RTT estimate: hand-written model functions of
    Model/Rtt.v = the definitions tools/gen_leaf.py regenerates from kalman.rs / ewma.rs / rtt.rs on every
    run (coq/Gen/LeafRtt.v); fourth batch, DESIGN.md §12.8.  All for ALL inputs (every binary64 value,
    NaN and infinities included), closed under the global context. *)
From Coq Require Import Floats ZArith Bool.
From Srtla Require Import Base Constants FConstants LeafRtt.
From Srtla Require Rtt Select.
Local Open Scope Z_scope.

(** ---- kalman.rs ---- *)
(** [KalmanFilter::update] with the configuration [KalmanConfig::for_rtt()] (the three anchored literals):
    whole-record equality; [p: [f64; 4]] is its four elements. *)
Lemma leaf_kalman_update_ok k m :
  Rtt.kalman_update k m =
  let '(x, v, p0, p1, p2, p3, i) :=
    leaf_kalman_update (Rtt.kx k) (Rtt.kv k) (Rtt.kp0 k) (Rtt.kp1 k) (Rtt.kp2 k) (Rtt.kp3 k)
                       KALMAN_Q_VALUE KALMAN_Q_VELOCITY KALMAN_R (Rtt.kinit k) m in
  {| Rtt.kx := x; Rtt.kv := v; Rtt.kp0 := p0; Rtt.kp1 := p1; Rtt.kp2 := p2; Rtt.kp3 := p3; Rtt.kinit := i |}.
Proof.
  destruct k as [x v p0 p1 p2 p3 i].
  unfold Rtt.kalman_update, leaf_kalman_update, Rtt.f_is_nan, Rtt.f_is_inf, Rtt.KALMAN_S_EPS, PrimFloat.is_finite;
    cbn [Rtt.kx Rtt.kv Rtt.kp0 Rtt.kp1 Rtt.kp2 Rtt.kp3 Rtt.kinit].
  (* the non-finite guard may be written as is_nan || is_infinite or as !is_finite: split both tests *)
  destruct (PrimFloat.is_nan m), (PrimFloat.is_infinity m); cbn [orb negb]; try reflexivity;
  destruct i; cbn [negb]; try reflexivity;
  cbv zeta; match goal with |- context [PrimFloat.ltb ?a ?b] => destruct (PrimFloat.ltb a b) end; reflexivity.
Qed.

Lemma leaf_kalman_reset_ok k :
  Rtt.kalman_new =
  let '(x, v, p0, p1, p2, p3, i) :=
    leaf_kalman_reset (Rtt.kx k) (Rtt.kv k) (Rtt.kp0 k) (Rtt.kp1 k) (Rtt.kp2 k) (Rtt.kp3 k) (Rtt.kinit k) in
  {| Rtt.kx := x; Rtt.kv := v; Rtt.kp0 := p0; Rtt.kp1 := p1; Rtt.kp2 := p2; Rtt.kp3 := p3; Rtt.kinit := i |}.
Proof. reflexivity. Qed.

(** ---- ewma.rs ---- *)
Lemma leaf_ewma_update_ok alpha e m :
  Rtt.ewma_update alpha e m =
  let '(v, i) := leaf_ewma_update (Rtt.ev e) alpha (Rtt.einit e) m in {| Rtt.ev := v; Rtt.einit := i |}.
Proof.
  destruct e as [v i]. unfold Rtt.ewma_update, leaf_ewma_update, Rtt.f_is_nan, Rtt.f_is_inf, PrimFloat.is_finite; cbn [Rtt.ev Rtt.einit].
  destruct (PrimFloat.is_nan m), (PrimFloat.is_infinity m); cbn [orb negb]; try reflexivity;
  destruct i; reflexivity.
Qed.

Lemma leaf_ewma_reset_ok e :
  Rtt.ewma_new = let '(v, i) := leaf_ewma_reset (Rtt.ev e) (Rtt.einit e) in {| Rtt.ev := v; Rtt.einit := i |}.
Proof. reflexivity. Qed.

(** ---- rtt.rs ---- *)
Lemma leaf_rtt_record_keepalive_sent_ok r now :
  let '(sent, waiting) := leaf_rtt_record_keepalive_sent (Rtt.r_ka_sent_ms r) (Rtt.r_waiting r) now in
  Rtt.r_ka_sent_ms (Rtt.record_keepalive_sent r now) = sent /\
  Rtt.r_waiting (Rtt.record_keepalive_sent r now) = waiting.
Proof. split; reflexivity. Qed.

(** The three read-only judgements have no hand-written counterpart (the classifier model takes
    [queue_building_suspected()] as an input): what the regenerated definitions guarantee for every input. *)
Lemma leaf_rtt_gradient_not_nan_nonneg fast slow :
  PrimFloat.is_nan (leaf_rtt_gradient_ms fast slow) = false /\
  PrimFloat.ltb (leaf_rtt_gradient_ms fast slow) 0 = false.
Proof.
  unfold leaf_rtt_gradient_ms, Select.f64_max.
  generalize (PrimFloat.sub fast slow); intro d.
  destruct (PrimFloat.is_nan d) eqn:Hn.
  - split; reflexivity.
  - change (PrimFloat.is_nan 0x0.0p+0) with false; cbv iota.
    destruct (PrimFloat.ltb d 0x0.0p+0) eqn:Hl.
    + split; reflexivity.
    + split; assumption.
Qed.

(** "Returns false until the baseline is established": *)
Lemma leaf_rtt_queue_building_needs_baseline mn fast slow masd init :
  leaf_rtt_queue_building_suspected mn fast slow masd init = true ->
  init = true /\ PrimFloat.is_finite mn = true.
Proof.
  unfold leaf_rtt_queue_building_suspected.
  destruct init; cbn [negb orb]; [|discriminate].
  destruct (PrimFloat.is_finite mn); cbn [negb]; [auto|discriminate].
Qed.
