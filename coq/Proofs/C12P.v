(** C12P.v — a routing decision is a pure penalty: it writes only guard-private state,
    the refreshed timeout and the quality cache; with the guard off it clears every stall
    flag and decides exactly as on links with no stall history.  Monitor soundness on the
    model's traces. *)
From Coq Require Import Floats ZifyBool.
From Srtla Require Import Base Constants FConstants Stall StallSel StallOps Run_Stall Run_C12 StallP.
Local Open Scope Z_scope.

(** ---- boolean equalities are reflexive (no float axioms: structural on [Prim2SF]) ---- *)
Lemma sf_eqb_refl : forall a, sf_eqb a a = true.
Proof.
  destruct a; cbn; try apply Bool.eqb_reflx; try reflexivity.
  rewrite Bool.eqb_reflx, Pos.eqb_refl, Z.eqb_refl. reflexivity.
Qed.
Lemma feqb_refl : forall a, feqb a a = true.
Proof. intros. apply sf_eqb_refl. Qed.
Lemma ozeqb_refl : forall o, ozeqb o o = true.
Proof. destruct o; cbn; [apply Z.eqb_refl | reflexivity]. Qed.
Lemma zlist_eqb_refl : forall l, zlist_eqb l l = true.
Proof. induction l; cbn; [reflexivity|]. rewrite Z.eqb_refl. exact IHl. Qed.
Lemma acct_eqb_refl : forall a, acct_eqb a a = true.
Proof.
  intros. unfold acct_eqb. rewrite Bool.eqb_reflx, !Z.eqb_refl, !ozeqb_refl, zlist_eqb_refl. reflexivity.
Qed.
Lemma aux_eqb_refl : forall a, aux_eqb a a = true.
Proof.
  intros. unfold aux_eqb. rewrite !Bool.eqb_reflx, !Z.eqb_refl, feqb_refl. reflexivity.
Qed.

(** ---- non-interference ----------------------------------------------------------------- *)
Theorem select_noninterference : forall cfg last now ins ls,
  map la (fst (select cfg last now ins ls)) = map la ls /\
  map lx (fst (select cfg last now ins ls)) = map lx ls.
Proof.
  intros. pose proof (select_decided cfg last now ins ls) as H.
  induction H as [|l l' t t' (A & X & _) _ [IH1 IH2]]; cbn [map]; [auto|].
  rewrite A, X, IH1, IH2. auto.
Qed.

Lemma select_views : forall cfg last now ins ls,
  views_eqb ls (fst (select cfg last now ins ls)) = true.
Proof.
  intros. pose proof (select_decided cfg last now ins ls) as H.
  induction H as [|l l' t t' (A & X & _) _ IH]; cbn; [reflexivity|].
  unfold view_eqb. rewrite A, X, acct_eqb_refl, aux_eqb_refl. exact IH.
Qed.

(** ---- counters ---------------------------------------------------------------------------- *)
Lemma gate_guard_counters : forall now cfg a x g,
  let g' := gate_guard now cfg a x g in
  g_events g <= g_events g' <= g_events g + 1 /\ g_pulls g <= g_pulls g' <= g_pulls g + 1.
Proof.
  intros. subst g'. unfold gate_guard, guard_off, latch_step, pull_step.
  repeat match goal with |- context [if ?c then _ else _] => destruct c end; cbn; lia.
Qed.

Theorem select_counters : forall cfg last now ins ls,
  all2 counters_ok ls (fst (select cfg last now ins ls)) = true.
Proof.
  intros. pose proof (select_decided cfg last now ins ls) as H.
  induction H as [|l l' t t' (_ & _ & U & _) _ IH]; cbn; [reflexivity|].
  rewrite IH, andb_true_r. unfold ungate in U. injection U as _ _ E _ _ P.
  pose proof (gate_guard_counters now cfg (la l) (lx l) (lg l)) as [C1 C2]. cbn zeta in *.
  unfold counters_ok. rewrite E, P. lia.
Qed.

(** ---- guard off ------------------------------------------------------------------------------ *)
Definition off_guard (l l' : link) : Prop := lg l' = guard_off (lg l).

Lemma select_off_guard : forall cfg last now ins ls, cf_guard cfg = false ->
  Forall2 off_guard ls (fst (select cfg last now ins ls)).
Proof.
  intros cfg last now ins ls G. unfold select.
  assert (A : Forall2 off_guard ls (apply_stall_gate now cfg ls)).
  { unfold apply_stall_gate. rewrite G. induction ls; cbn [map]; constructor; auto.
    unfold off_guard, gate_link, gate_guard. rewrite G. reflexivity. }
  destruct (cf_classic cfg); [exact A|].
  unfold enhanced_select.
  pose proof (enh_go_cache_only now (cf_quality cfg)
                (any_unconstrained now (apply_stall_gate now cfg ls) ins) last
                (apply_stall_gate now cfg ls) ins 0 (mkE None (-1)%float None)) as H.
  destruct (enh_go now (cf_quality cfg) _ last (apply_stall_gate now cfg ls) ins 0 _) as [ls' acc].
  cbn [fst] in *. revert ls' H.
  induction A as [|l l1 t t1 E A IH]; intros ls' H2; inversion H2 as [|? l2 ? t2 C T]; subst; constructor; auto.
  destruct C as (_ & Hg & _). unfold off_guard in *. congruence.
Qed.

Theorem select_off_clears : forall cfg last now ins ls, cf_guard cfg = false ->
  forallb cleared (fst (select cfg last now ins ls)) = true.
Proof.
  intros cfg last now ins ls G. pose proof (select_off_guard cfg last now ins ls G) as H.
  induction H as [|l l' t t' E _ IH]; cbn [forallb]; [reflexivity|].
  rewrite IH, andb_true_r. unfold cleared. rewrite E. reflexivity.
Qed.

(** the selectors read guard state only through [g_gated] *)
Definition ungated (l : link) : Prop := g_gated (lg l) = false.

Lemma skipped_forget : forall now l, ungated l -> skipped now (forget_stall l) = skipped now l.
Proof. intros now l U. unfold skipped, timed_out, schedulable, forget_stall. cbn. rewrite U. reflexivity. Qed.

Lemma classic_go_forget : forall now ls i best bs, Forall ungated ls ->
  classic_go now (map forget_stall ls) i best bs = classic_go now ls i best bs.
Proof.
  induction ls as [|l t IH]; intros i best bs U; [reflexivity|].
  inversion U; subst. cbn [map classic_go]. rewrite skipped_forget by assumption.
  change (get_score (forget_stall l)) with (get_score l).
  destruct (skipped now l); [apply IH; assumption|].
  destruct (bs <? get_score l); apply IH; assumption.
Qed.

Lemma any_unconstrained_forget : forall now ls ins, Forall ungated ls ->
  any_unconstrained now (map forget_stall ls) ins = any_unconstrained now ls ins.
Proof.
  induction ls as [|l t IH]; intros ins U; [reflexivity|].
  inversion U; subst. cbn [map any_unconstrained]. rewrite IH by assumption.
  unfold unconstrained, timed_out, schedulable, forget_stall. cbn. rewrite H1. reflexivity.
Qed.

Lemma enh_go_forget : forall now quality any last ls ins i acc, Forall ungated ls ->
  enh_go now quality any last (map forget_stall ls) ins i acc =
  (map forget_stall (fst (enh_go now quality any last ls ins i acc)),
   snd (enh_go now quality any last ls ins i acc)).
Proof.
  induction ls as [|l t IH]; intros ins i acc U; [reflexivity|].
  inversion U; subst. cbn [map enh_go]. rewrite skipped_forget by assumption.
  destruct (skipped now l || (any && si_capx (hd selin0 ins))).
  - rewrite IH by assumption.
    destruct (enh_go now quality any last t (tl ins) (i + 1) acc) as [t' acc']. reflexivity.
  - change (get_score (forget_stall l)) with (get_score l).
    cbn [forget_stall la lx lc lg].
    match goal with |- context [enh_go now quality any last (map forget_stall t) (tl ins) (i + 1) ?a] =>
      rewrite (IH (tl ins) (i + 1) a) by assumption;
      destruct (enh_go now quality any last t (tl ins) (i + 1) a) as [t' acc'] end.
    reflexivity.
Qed.

Lemma gate_off_forget : forall now cfg ls, cf_guard cfg = false ->
  apply_stall_gate now cfg (map forget_stall ls) = map forget_stall (apply_stall_gate now cfg ls) /\
  Forall ungated (apply_stall_gate now cfg ls).
Proof.
  intros now cfg ls G. unfold apply_stall_gate. rewrite G. split.
  - rewrite !map_map. apply map_ext. intros l. unfold gate_link, gate_guard, forget_stall. rewrite G. reflexivity.
  - induction ls; cbn [map]; constructor; auto. unfold ungated, gate_link, gate_guard. rewrite G. reflexivity.
Qed.

Theorem select_off_is_baseline : forall cfg last now ins ls, cf_guard cfg = false ->
  snd (select cfg last now ins (map forget_stall ls)) = snd (select cfg last now ins ls) /\
  fst (select cfg last now ins (map forget_stall ls)) = map forget_stall (fst (select cfg last now ins ls)).
Proof.
  intros cfg last now ins ls G. unfold select.
  destruct (gate_off_forget now cfg ls G) as [E U]. rewrite E.
  set (ls1 := apply_stall_gate now cfg ls) in *. clearbody ls1.
  destruct (cf_classic cfg); cbn [fst snd].
  - split; [|reflexivity]. unfold classic_select. apply classic_go_forget. exact U.
  - unfold enhanced_select. rewrite any_unconstrained_forget by exact U.
    rewrite enh_go_forget by exact U.
    destruct (enh_go now (cf_quality cfg) (any_unconstrained now ls1 ins) last ls1 ins 0
                (mkE None (-1)%float None)) as [ls' acc].
    cbn [fst snd]. split; reflexivity.
Qed.

(** ---- the monitor accepts every trace of the model ------------------------------------------- *)
Lemma mon12_step_ok : forall s o, mon12_step (mkT o s (fst (step s o)) (snd (step s o))) (twin_of s o) = 0%N.
Proof.
  intros s o. unfold mon12_step. cbn [t_op t_pre t_post t_res].
  destruct o; try reflexivity. cbn [step twin_of].
  rewrite select_views, select_counters. cbn [first_clause].
  destruct (cf_guard cfg) eqn:G; cbn [orb]; [reflexivity|]. unfold state in *.
  rewrite (select_off_clears cfg last now ins s G).
  destruct (select_off_is_baseline cfg last now ins s G) as [E _]. rewrite E, ozeqb_refl. reflexivity.
Qed.

Theorem monitor12_holds : forall ops s, ok_C12 (trace12 s ops) = true.
Proof.
  intros ops s. unfold ok_C12.
  assert (H : forall k, mon12 (trace12 s ops) k = (0, 0)%N).
  { revert s. induction ops as [|o t IH]; intros s k; [reflexivity|].
    cbn [trace12]. pose proof (mon12_step_ok s o) as M.
    destruct (step s o) as [s' r]. cbn [fst snd] in M. cbn [mon12]. rewrite M. cbn. apply IH. }
  rewrite H. reflexivity.
Qed.

(** decisions only: along any sequence of routing decisions the liveness / accounting view
    of every link stays what it was *)
Definition is_select (o : op) : bool := match o with OSelect _ _ _ _ => true | _ => false end.

Theorem decisions_never_touch_view : forall ops s, forallb is_select ops = true ->
  map la (run s ops) = map la s /\ map lx (run s ops) = map lx s.
Proof.
  induction ops as [|o t IH]; intros s H; [auto|].
  cbn [forallb] in H. apply andb_true_iff in H as [Ho Ht]. destruct o; try discriminate.
  cbn [run step]. unfold state in *. destruct (IH (fst (select cfg last now ins s)) Ht) as [A X].
  destruct (select_noninterference cfg last now ins s) as [A' X']. split; congruence.
Qed.
