(** ForwardP.v — lemmas about the forwarding-slice model (Model/Forward.v):
    the send loop, the per-link ghost-log invariant, conservation, FIFO,
    bounded hold, the probe-rate potential, and their lifting to op lists. *)
From Coq Require Import ZifyBool Permutation.
From Srtla Require Import Base Constants Wire Forward.
Ltac Zify.zify_post_hook ::= Z.div_mod_to_equations.

Lemma send_size_pos : 0 < BATCH_SEND_SIZE.
Proof. reflexivity. Qed.

(** ---- one sendmmsg call ---- *)
Lemma sock_send_range : forall r offered n,
  0 <= offered -> sock_send_batch r offered = Some n -> 0 <= n <= offered.
Proof.
  intros r offered n Ho H. destruct r; cbn in H; [|discriminate].
  inversion H; subst. unfold clamp. lia.
Qed.

(** ---- send_all_datagrams ---- *)
Lemma send_all_range : forall fuel total sent orc n ok,
  0 <= sent <= total -> send_all fuel total sent orc = (n, ok) -> sent <= n <= total.
Proof.
  induction fuel as [|f IH]; intros total sent orc n ok Hs H; cbn [send_all] in H.
  - inversion H; subst; lia.
  - destruct (sent <? total) eqn:Hlt.
    + pose proof send_size_pos as Hp.
      set (take := Z.min (total - sent) BATCH_SEND_SIZE) in *.
      assert (Ht : 1 <= take <= total - sent) by (unfold take; lia).
      destruct (sock_send_batch _ take) as [n'|] eqn:Hs'.
      * apply sock_send_range in Hs'; [|lia].
        destruct (n' =? 0) eqn:Hz.
        -- inversion H; subst; lia.
        -- apply IH in H; lia.
      * inversion H; subst; lia.
    + inversion H; subst; lia.
Qed.

Lemma send_all_ok_total : forall fuel total sent orc n,
  0 <= sent <= total -> send_all fuel total sent orc = (n, true) -> n = total.
Proof.
  induction fuel as [|f IH]; intros total sent orc n Hs H; cbn [send_all] in H.
  - discriminate.
  - destruct (sent <? total) eqn:Hlt.
    + pose proof send_size_pos as Hp.
      set (take := Z.min (total - sent) BATCH_SEND_SIZE) in *.
      assert (Ht : 1 <= take <= total - sent) by (unfold take; lia).
      destruct (sock_send_batch _ take) as [n'|] eqn:Hs'; [|discriminate].
      apply sock_send_range in Hs'; [|lia].
      destruct (n' =? 0) eqn:Hz; [discriminate|].
      apply IH in H; lia.
    + inversion H; subst; lia.
Qed.

Lemma send_all_fail_lt : forall fuel total sent orc n,
  0 <= sent <= total -> (Z.to_nat (total - sent) < fuel)%nat ->
  send_all fuel total sent orc = (n, false) -> n < total /\ has_fail orc = true.
Proof.
  induction fuel as [|f IH]; intros total sent orc n Hs Hf H; cbn [send_all] in H.
  - lia.
  - destruct (sent <? total) eqn:Hlt; [|discriminate].
    pose proof send_size_pos as Hp.
    set (take := Z.min (total - sent) BATCH_SEND_SIZE) in *.
    assert (Ht : 1 <= take <= total - sent) by (unfold take; lia).
    destruct orc as [|r rest]; cbn [tl] in H.
    + cbn [sock_send_batch] in H. unfold clamp in H.
      replace (Z.min take (Z.max 0 take)) with take in H by lia.
      destruct (take =? 0) eqn:Hz; [lia|].
      apply IH in H; [|lia|lia]. destruct H as [_ H]. discriminate.
    + destruct r as [x|]; cbn [sock_send_batch] in H.
      * destruct (clamp 0 take x =? 0) eqn:Hz.
        -- inversion H; subst. split; [lia|].
           cbn [has_fail existsb]. unfold clamp in Hz.
           assert (x <= 0) by lia. apply orb_true_iff; left. lia.
        -- unfold clamp in *. apply IH in H; [|lia|lia].
           destruct H as [H1 H2]. split; [exact H1|].
           cbn [has_fail existsb]. apply orb_true_iff; right. exact H2.
      * inversion H; subst. split; [lia|reflexivity].
Qed.

(** every answer positive: the whole batch goes out (short sends are completed) *)
Definition positive (r : sres) : Prop := match r with SOk n => 0 < n | SErr => False end.

Lemma send_all_positive : forall fuel total sent orc,
  Forall positive orc -> 0 <= sent <= total -> (Z.to_nat (total - sent) < fuel)%nat ->
  send_all fuel total sent orc = (total, true).
Proof.
  induction fuel as [|f IH]; intros total sent orc Hp Hs Hf; cbn [send_all].
  - lia.
  - destruct (sent <? total) eqn:Hlt.
    + pose proof send_size_pos as Hp0.
      set (take := Z.min (total - sent) BATCH_SEND_SIZE) in *.
      assert (Ht : 1 <= take <= total - sent) by (unfold take; lia).
      destruct orc as [|r rest]; cbn [tl].
      * cbn [sock_send_batch]. unfold clamp.
        replace (Z.min take (Z.max 0 take)) with take by lia.
        destruct (take =? 0) eqn:Hz; [lia|]. apply IH; [constructor|lia|lia].
      * inversion Hp as [|? ? Hr Hrest]; subst. destruct r as [x|]; cbn in Hr; [|contradiction].
        cbn [sock_send_batch]. unfold clamp.
        destruct (Z.min take (Z.max 0 x) =? 0) eqn:Hz; [lia|].
        apply IH; [exact Hrest|lia|lia].
    + f_equal. lia.
Qed.

Lemma send_all_zero_is_error : forall f total sent rest,
  sent < total -> send_all (S f) total sent (SOk 0 :: rest) = (sent, false).
Proof.
  intros f total sent rest H. cbn [send_all].
  destruct (sent <? total) eqn:Hlt; [|lia].
  cbn [sock_send_batch]. pose proof send_size_pos.
  unfold clamp. replace (Z.min _ (Z.max 0 0)) with 0 by lia. reflexivity.
Qed.

Lemma send_all_err_is_error : forall f total sent rest,
  sent < total -> send_all (S f) total sent (SErr :: rest) = (sent, false).
Proof.
  intros f total sent rest H. cbn [send_all].
  destruct (sent <? total) eqn:Hlt; [|lia]. reflexivity.
Qed.

(** ---- flush_link: a prefix goes out, the rest is lost, the queue is empty ---- *)
Lemma blen_nat : forall {A} (l : list A), blen l = Z.of_nat (length l).
Proof. reflexivity. Qed.

Lemma flush_link_spec : forall now orc l l2 out ok,
  flush_link now orc l = (l2, out, ok) ->
  exists k, (k <= length (queue l))%nat /\
    out = map q_d (firstn k (queue l)) /\
    l2 = upd_q l [] now (acc l)
           (fates l ++ map (tag Sent) (firstn k (queue l)) ++ map (tag Lost) (skipn k (queue l))) /\
    (ok = true -> k = length (queue l)) /\
    (ok = false -> (k < length (queue l))%nat /\ has_fail orc = true).
Proof.
  unfold flush_link. intros now orc l l2 out ok H.
  destruct (send_all _ _ 0 orc) as [n b] eqn:Hs. inversion H; subst; clear H.
  pose proof (send_all_range _ _ _ _ _ _ (conj (Z.le_refl 0) (Zle_0_nat _)) Hs) as Hr.
  rewrite blen_nat in *.
  exists (Z.to_nat n). repeat split.
  - lia.
  - intro Hb; subst ok. apply send_all_ok_total in Hs; [|lia]. subst n. apply Nat2Z.id.
  - subst ok. apply send_all_fail_lt in Hs; [lia|lia|lia].
  - subst ok. apply send_all_fail_lt in Hs; [tauto|lia|lia].
Qed.

(** ---- the per-link invariant ---- *)
Definition log_ok (l : link) : Prop := acc l = map fst (fates l) ++ map cpy_of (queue l).
Definition ctr_ok (l : link) : Prop := 0 <= ctr l < STALL_PROBE_ONE_IN_N.
Definition hold_ok (l : link) : Prop := has_io l = true -> blen (queue l) < BATCH_SEND_SIZE.
Definition inv (l : link) : Prop := log_ok l /\ ctr_ok l /\ hold_ok l.

Lemma batch_size_le : forall r, batch_size r <= BATCH_SEND_SIZE.
Proof. destruct r; vm_compute; intro H; discriminate H. Qed.
Lemma batch_size_pos : forall r, 0 < batch_size r.
Proof. destruct r; reflexivity. Qed.
Lemma probe_n_pos : 0 < STALL_PROBE_ONE_IN_N.
Proof. reflexivity. Qed.

Lemma map_fst_tag : forall f q, map fst (map (tag f) q) = map cpy_of q.
Proof. intros f q. rewrite map_map. reflexivity. Qed.

Lemma fates_split : forall k (q : list qent),
  map fst (map (tag Sent) (firstn k q) ++ map (tag Lost) (skipn k q)) = map cpy_of q.
Proof.
  intros k q. rewrite map_app, !map_fst_tag, <- map_app, firstn_skipn. reflexivity.
Qed.

(** queue_data_packet + threshold flush, all outcomes *)
Lemma qaf_spec : forall now e orc l l' w,
  queue_and_flush now e orc l = (l', w) ->
  has_io l' = has_io l /\ regime_of l' = regime_of l /\ acc l' = acc l ++ [cpy_of e] /\
  ((l' = enqueue e l /\ w = [] /\ needs_flush (enqueue e l) && has_io l = false) \/
   (exists k, let q := queue l ++ [e] in
      needs_flush (enqueue e l) && has_io l = true /\
      (k <= length q)%nat /\ w = map q_d (firstn k q) /\ queue l' = [] /\
      fates l' = fates l ++ map (tag Sent) (firstn k q) ++ map (tag Lost) (skipn k q) /\
      ((k = length q /\ connected l' = connected l /\ ctr l' = ctr l /\ last_flush l' = now) \/
       ((k < length q)%nat /\ has_fail orc = true /\ connected l' = false /\ ctr l' = 0 /\
        last_flush l' = 0)))).
Proof.
  unfold queue_and_flush. intros now e orc l l' w H.
  change (has_io (enqueue e l)) with (has_io l) in H.
  destruct (needs_flush (enqueue e l) && has_io l) eqn:Hc.
  - destruct (flush_link now orc (enqueue e l)) as [[l2 out] ok] eqn:Hf.
    apply flush_link_spec in Hf. destruct Hf as (k & Hk & Hout & Hl2 & Hok & Hbad).
    cbn [enqueue queue upd_q acc fates] in *.
    inversion H; subst w l'; clear H. destruct ok.
    + subst l2. cbn. repeat split; try reflexivity. right. exists k. cbn.
      repeat split; try reflexivity; try assumption. left. repeat split. apply Hok; reflexivity.
    + destruct (Hbad eq_refl) as [Hlt Hfail]. subst l2. cbn. repeat split; try reflexivity.
      right. exists k. cbn. repeat split; try reflexivity; try assumption.
      * rewrite app_nil_r. reflexivity.
      * right. repeat split; assumption.
  - inversion H; subst. cbn. repeat split; try reflexivity. left. repeat split; reflexivity.
Qed.

Lemma qaf_inv : forall now e orc l l' w,
  inv l -> queue_and_flush now e orc l = (l', w) -> inv l'.
Proof.
  intros now e orc l l' w (Hlog & Hctr & Hhold) H.
  apply qaf_spec in H. destruct H as (Hio & Hreg & Hacc & [(-> & _ & Hnf)|(k & Hnf & Hk & _ & Hq & Hf & Hrest)]).
  - split; [|split].
    + unfold log_ok in *. cbn. rewrite Hlog, map_app, app_assoc. reflexivity.
    + exact Hctr.
    + intro Hi. cbn in Hi. rewrite Hi, andb_true_r in Hnf. unfold needs_flush in Hnf.
      pose proof (batch_size_le (regime_of (enqueue e l))). cbn [has_io enqueue upd_q queue] in *. lia.
  - cbn zeta in *. split; [|split].
    + unfold log_ok in *. rewrite Hacc, Hf, Hq, Hlog. cbn [map]. rewrite app_nil_r.
      rewrite map_app, fates_split, map_app, app_assoc. reflexivity.
    + unfold ctr_ok in *. destruct Hrest as [(_ & _ & -> & _)|(_ & _ & _ & -> & _)]; [exact Hctr|].
      pose proof probe_n_pos; lia.
    + intro. rewrite Hq. pose proof send_size_pos. cbn. lia.
Qed.

(** ---- the invariant is preserved by every primitive and every op ---- *)
Lemma inv_set_ctr : forall c l, 0 <= c < STALL_PROBE_ONE_IN_N -> inv l -> inv (set_ctr c l).
Proof. intros c l Hc (H1 & H2 & H3). split; [exact H1|split; [exact Hc|exact H3]]. Qed.
Lemma inv_set_conn : forall b l, inv l -> inv (set_conn b l).
Proof. intros b l H. exact H. Qed.
Lemma inv_set_regime : forall r l, inv l -> inv (set_regime r l).
Proof. intros r l H. exact H. Qed.

Lemma inv_drop_queue : forall l, inv l -> inv (drop_queue l).
Proof.
  intros l (H1 & H2 & H3). split; [|split; [exact H2|]].
  - unfold log_ok in *. cbn. rewrite H1, map_app, map_fst_tag, app_nil_r. reflexivity.
  - intro. cbn. pose proof send_size_pos. lia.
Qed.

Lemma inv_reset_link : forall k l, inv l -> inv (reset_link k l).
Proof.
  intros k l H. pose proof probe_n_pos.
  destruct k; cbn [reset_link];
    [apply inv_set_ctr; [lia|] | apply inv_set_ctr; [lia|] | ];
    apply inv_set_conn, inv_drop_queue, H.
Qed.

Lemma inv_flush : forall now orc l l2 out ok,
  inv l -> flush_link now orc l = (l2, out, ok) -> inv l2.
Proof.
  intros now orc l l2 out ok (H1 & H2 & H3) H.
  apply flush_link_spec in H. destruct H as (k & _ & _ & -> & _).
  split; [|split; [exact H2|]].
  - unfold log_ok in *. cbn. rewrite H1, map_app, fates_split, app_nil_r. reflexivity.
  - intro. cbn. pose proof send_size_pos. lia.
Qed.

Lemma step_link_inv : forall hw o j l, inv l -> inv (fst (step_link hw o j l)).
Proof.
  intros hw o j l H. destruct o as [now pkt sel reg gated orc|now orc|i r|i k|i b|eff ctl|ctl];
    cbn [step_link].
  - destruct pkt as [|b0 pkt']; [exact H|]. destruct sel as [i|]; [|exact H].
    destruct (Nat.eqb j i).
    + destruct (queue_and_flush _ _ _ l) as [l' w] eqn:Hq. cbn. eapply qaf_inv; eassumption.
    + destruct (reg && is_some _ && nth j gated false && connected l); [|exact H].
      destruct (STALL_PROBE_ONE_IN_N <=? ctr l + 1) eqn:Hc.
      * destruct (queue_and_flush _ _ _ (set_ctr 0 l)) as [l' w] eqn:Hq. cbn.
        eapply qaf_inv; [|eassumption]. apply inv_set_ctr; [pose proof probe_n_pos; lia|exact H].
      * cbn. apply inv_set_ctr; [|exact H]. destruct H as (_ & Hc' & _). unfold ctr_ok in Hc'. lia.
  - destruct (hw && has_queued l && has_io l); [|exact H].
    destruct (flush_link now (orc_of orc j) l) as [[l2 out] ok] eqn:Hf. cbn.
    eapply inv_flush; eassumption.
  - destruct (Nat.eqb j i); [apply inv_set_regime|]; exact H.
  - destruct (Nat.eqb j i); [apply inv_reset_link|]; exact H.
  - destruct (Nat.eqb j i); [apply inv_set_conn|]; exact H.
  - cbn. destruct (nth j eff HKeep); [exact H|apply inv_set_regime, H|apply inv_reset_link, H].
  - exact H.
Qed.

Lemma step_link_io : forall hw o j l, has_io (fst (step_link hw o j l)) = has_io l.
Proof.
  intros hw o j l. destruct o as [now pkt sel reg gated orc|now orc|i r|i k|i b|eff ctl|ctl];
    cbn [step_link].
  - destruct pkt as [|b0 pkt']; [reflexivity|]. destruct sel as [i|]; [|reflexivity].
    destruct (Nat.eqb j i).
    + destruct (queue_and_flush _ _ _ l) as [l' w] eqn:Hq. apply qaf_spec in Hq. cbn. tauto.
    + destruct (reg && is_some _ && nth j gated false && connected l); [|reflexivity].
      destruct (STALL_PROBE_ONE_IN_N <=? ctr l + 1); [|reflexivity].
      destruct (queue_and_flush _ _ _ (set_ctr 0 l)) as [l' w] eqn:Hq. apply qaf_spec in Hq. cbn.
      destruct Hq as (Hq & _). exact Hq.
  - destruct (hw && has_queued l && has_io l); [|reflexivity].
    destruct (flush_link now (orc_of orc j) l) as [[l2 out] ok] eqn:Hf.
    apply flush_link_spec in Hf. destruct Hf as (k & _ & _ & -> & _). reflexivity.
  - destruct (Nat.eqb j i); reflexivity.
  - destruct (Nat.eqb j i); [destruct k|]; reflexivity.
  - destruct (Nat.eqb j i); reflexivity.
  - cbn. destruct (nth j eff HKeep) as [|r|k]; [reflexivity|reflexivity|destruct k; reflexivity].
  - reflexivity.
Qed.

(** ---- lifting to the list of links ---- *)
Lemma step_links_length : forall hw o ls j, length (step_links hw o j ls) = length ls.
Proof. induction ls as [|l t IH]; intro j; cbn; [reflexivity|rewrite IH; reflexivity]. Qed.

Lemma step_length : forall ls o, length (fst (step ls o)) = length ls.
Proof. intros. unfold step. cbn. rewrite map_length, step_links_length. reflexivity. Qed.

Lemma exec_length : forall ops ls, length (exec ls ops) = length ls.
Proof.
  induction ops as [|o t IH]; intro ls; cbn [exec]; [reflexivity|].
  rewrite IH, step_length. reflexivity.
Qed.

Lemma nth_step_links : forall hw o d ls j k, (k < length ls)%nat ->
  nth k (map fst (step_links hw o j ls)) d = fst (step_link hw o (j + k) (nth k ls d)).
Proof.
  induction ls as [|l t IH]; intros j k Hk; cbn in Hk; [lia|].
  destruct k as [|k]; cbn [step_links map nth].
  - rewrite Nat.add_0_r. reflexivity.
  - rewrite IH by lia. f_equal. f_equal. lia.
Qed.

Lemma nth_step : forall ls o d k, (k < length ls)%nat ->
  nth k (fst (step ls o)) d = fst (step_link (existsb has_queued ls) o k (nth k ls d)).
Proof. intros. unfold step. cbn [fst]. rewrite nth_step_links by assumption. reflexivity. Qed.

Lemma step_links_Forall : forall (P : link -> Prop) hw o,
  (forall j l, P l -> P (fst (step_link hw o j l))) ->
  forall ls j, Forall P ls -> Forall P (map fst (step_links hw o j ls)).
Proof.
  intros P hw o Hs. induction ls as [|l t IH]; intros j H; cbn; [constructor|].
  inversion H; subst. constructor; [apply Hs; assumption|apply IH; assumption].
Qed.

Lemma step_inv : forall ls o, Forall inv ls -> Forall inv (fst (step ls o)).
Proof. intros. unfold step. cbn [fst]. apply step_links_Forall; [intros; apply step_link_inv|]; assumption. Qed.

Lemma exec_inv : forall ops ls, Forall inv ls -> Forall inv (exec ls ops).
Proof. induction ops as [|o t IH]; intros ls H; cbn [exec]; [exact H|apply IH, step_inv, H]. Qed.

Lemma init_inv : forall xs, wf_init xs -> Forall inv (init xs).
Proof.
  intros xs H. unfold init. apply Forall_map. eapply Forall_impl; [|exact H].
  intros x Hx. split; [reflexivity|split; [exact Hx|]]. intro. cbn. apply send_size_pos.
Qed.

Lemma step_io : forall ls o, map has_io (fst (step ls o)) = map has_io ls.
Proof.
  intros ls o. unfold step. cbn [fst]. generalize (existsb has_queued ls) as hw. generalize 0%nat as j.
  induction ls as [|l t IH]; intros j hw; cbn; [reflexivity|].
  rewrite step_link_io, IH. reflexivity.
Qed.

Lemma exec_io : forall ops ls, map has_io (exec ls ops) = map has_io ls.
Proof.
  induction ops as [|o t IH]; intro ls; cbn [exec]; [reflexivity|]. rewrite IH, step_io. reflexivity.
Qed.

(** ---- consequences of the ghost-log invariant ---- *)
Inductive subseq {A} : list A -> list A -> Prop :=
| subseq_nil : subseq [] []
| subseq_take : forall x a b, subseq a b -> subseq (x :: a) (x :: b)
| subseq_skip : forall x a b, subseq a b -> subseq a (x :: b).

Lemma subseq_refl : forall {A} (l : list A), subseq l l.
Proof. induction l; constructor; assumption. Qed.
Lemma subseq_app_r : forall {A} (a b c : list A), subseq a b -> subseq a (b ++ c).
Proof.
  intros A a b c H. induction H; cbn.
  - induction c; constructor; assumption.
  - constructor; assumption.
  - constructor; assumption.
Qed.
Lemma subseq_filter_map : forall {A B} (f : A -> B) p (l : list A), subseq (map f (filter p l)) (map f l).
Proof.
  induction l as [|x t IH]; cbn; [constructor|].
  destruct (p x); cbn; constructor; exact IH.
Qed.

Lemma perm_filter_split : forall {A B} (f : A -> B) p (l : list A),
  Permutation (map f l) (map f (filter p l) ++ map f (filter (fun x => negb (p x)) l)).
Proof.
  induction l as [|x t IH]; cbn; [constructor|].
  destruct (p x); cbn.
  - constructor. exact IH.
  - apply Permutation_cons_app. exact IH.
Qed.

(** every copy ever accepted on the link is, exactly once, on the wire, lost, or still queued *)
Lemma inv_conservation : forall l, inv l ->
  Permutation (acc l) (wire_of l ++ lost_of l ++ map cpy_of (queue l)).
Proof.
  intros l (H & _). unfold log_ok in H. rewrite H, app_assoc.
  apply Permutation_app_tail. apply perm_filter_split.
Qed.

(** what reached the wire is a subsequence of the arrival order *)
Lemma inv_fifo : forall l, inv l -> subseq (wire_of l) (acc l).
Proof.
  intros l (H & _). unfold log_ok in H. rewrite H. apply subseq_app_r, subseq_filter_map.
Qed.

(** ... and the still-queued copies are exactly the most recent arrivals, in order *)
Lemma inv_queue_suffix : forall l, inv l -> exists done, acc l = done ++ map cpy_of (queue l) /\ subseq (wire_of l) done.
Proof.
  intros l (H & _). exists (map fst (fates l)). split; [exact H|apply subseq_filter_map].
Qed.

(** ---- how one op changes the arrival log of link j ---- *)
Definition uniques (l : link) : list dgram := map fst (filter (fun c => negb (snd c)) (acc l)).
Definition nprobes (l : link) : Z := blen (filter (fun c : cpy => snd c) (acc l)).

(** the client datagram this op routes to link j (the scheduler's choice) *)
Definition routed_to_op (j : nat) (o : op) : list dgram :=
  match o with
  | Client _ (b :: p) (Some i) _ _ _ => if Nat.eqb j i then [b :: p] else []
  | _ => []
  end.
(** is this op a routed SRT data packet *)
Definition routed_data_op (o : op) : Z :=
  match o with
  | Client _ (b :: p) (Some _) _ _ _ => if is_some (seq_of (b :: p)) then 1 else 0
  | _ => 0
  end.

Inductive acc_change (o : op) (j : nat) (l l' : link) : Prop :=
| ac_same : acc l' = acc l -> routed_to_op j o = [] -> acc_change o j l l'
| ac_unique : forall now pkt i reg gated orc,
    o = Client now pkt (Some i) reg gated orc -> pkt <> [] -> j = i ->
    acc l' = acc l ++ [(pkt, false)] -> acc_change o j l l'
| ac_probe : forall now pkt i reg gated orc,
    o = Client now pkt (Some i) reg gated orc -> pkt <> [] -> j <> i ->
    reg = true -> is_some (seq_of pkt) = true -> nth j gated false = true -> connected l = true ->
    STALL_PROBE_ONE_IN_N <= ctr l + 1 ->
    acc l' = acc l ++ [(pkt, true)] -> acc_change o j l l'.

Lemma flush_link_acc : forall now orc l l2 out ok, flush_link now orc l = (l2, out, ok) -> acc l2 = acc l.
Proof. intros. apply flush_link_spec in H. destruct H as (k & _ & _ & -> & _). reflexivity. Qed.

Lemma step_link_acc : forall hw o j l, acc_change o j l (fst (step_link hw o j l)).
Proof.
  intros hw o j l. destruct o as [now pkt sel reg gated orc|now orc|i r|i k|i b|eff ctl|ctl];
    cbn [step_link].
  - destruct pkt as [|b0 pkt']; [apply ac_same; reflexivity|].
    destruct sel as [i|]; [|apply ac_same; reflexivity].
    destruct (Nat.eqb j i) eqn:Hji.
    + destruct (queue_and_flush _ _ _ l) as [l' w] eqn:Hq. apply qaf_spec in Hq. cbn.
      eapply ac_unique; [reflexivity|discriminate|apply Nat.eqb_eq; exact Hji|tauto].
    + destruct (reg && is_some _ && nth j gated false && connected l) eqn:Hc;
        [|apply ac_same; [reflexivity|cbn; rewrite Hji; reflexivity]].
      apply andb_true_iff in Hc. destruct Hc as (Hc & Hconn).
      apply andb_true_iff in Hc. destruct Hc as (Hc & Hg).
      apply andb_true_iff in Hc. destruct Hc as (Hreg & Hdata).
      destruct (STALL_PROBE_ONE_IN_N <=? ctr l + 1) eqn:Hn;
        [|apply ac_same; [reflexivity|cbn; rewrite Hji; reflexivity]].
      destruct (queue_and_flush _ _ _ (set_ctr 0 l)) as [l' w] eqn:Hq. apply qaf_spec in Hq. cbn.
      eapply ac_probe; [reflexivity|discriminate|apply Nat.eqb_neq; exact Hji|exact Hreg|exact Hdata
                       |exact Hg|exact Hconn|lia|tauto].
  - apply ac_same; [|reflexivity]. destruct (hw && has_queued l && has_io l); [|reflexivity].
    destruct (flush_link now (orc_of orc j) l) as [[l2 out] ok] eqn:Hf. cbn. eapply flush_link_acc; eassumption.
  - apply ac_same; [|reflexivity]. destruct (Nat.eqb j i); reflexivity.
  - apply ac_same; [|reflexivity]. destruct (Nat.eqb j i); [destruct k|]; reflexivity.
  - apply ac_same; [|reflexivity]. destruct (Nat.eqb j i); reflexivity.
  - apply ac_same; [|reflexivity]. cbn. destruct (nth j eff HKeep) as [|r|k]; [reflexivity|reflexivity|destruct k; reflexivity].
  - apply ac_same; reflexivity.
Qed.

Lemma step_link_uniques : forall hw o j l,
  uniques (fst (step_link hw o j l)) = uniques l ++ routed_to_op j o.
Proof.
  intros hw o j l. unfold uniques.
  destruct (step_link_acc hw o j l) as [Ha Hr|now pkt i reg gated orc -> Hp -> Ha|now pkt i reg gated orc -> Hp Hji _ _ _ _ _ Ha].
  - rewrite Ha, Hr, app_nil_r. reflexivity.
  - rewrite Ha, filter_app, map_app. cbn. destruct pkt; [contradiction|]. rewrite Nat.eqb_refl. reflexivity.
  - rewrite Ha, filter_app, map_app. cbn. destruct pkt; [contradiction|].
    apply Nat.eqb_neq in Hji. rewrite Hji. cbn. rewrite ?app_nil_r. reflexivity.
Qed.

(** ---- the probe-rate potential: 100 * (probe copies so far) + counter grows by at
    most one per routed data packet and never otherwise ---- *)
Definition potential (l : link) : Z := STALL_PROBE_ONE_IN_N * nprobes l + ctr l.

Lemma nprobes_unique : forall l l' p, acc l' = acc l ++ [(p, false)] -> nprobes l' = nprobes l.
Proof. intros l l' p H. unfold nprobes. rewrite H, filter_app. cbn. rewrite app_nil_r. reflexivity. Qed.
Lemma nprobes_probe : forall l l' p, acc l' = acc l ++ [(p, true)] -> nprobes l' = nprobes l + 1.
Proof.
  intros l l' p H. unfold nprobes. rewrite H, filter_app. cbn. unfold blen. rewrite app_length. cbn. lia.
Qed.
Lemma nprobes_same : forall l l', acc l' = acc l -> nprobes l' = nprobes l.
Proof. intros l l' H. unfold nprobes. rewrite H. reflexivity. Qed.

Lemma qaf_ctr : forall now e orc l l' w,
  queue_and_flush now e orc l = (l', w) -> ctr l' = ctr l \/ ctr l' = 0.
Proof.
  intros now e orc l l' w H. apply qaf_spec in H.
  destruct H as (_ & _ & _ & [(-> & _)|(k & _ & _ & _ & _ & _ & [(_ & _ & H & _)|(_ & _ & _ & H & _)])]).
  - left; reflexivity.
  - left; exact H.
  - right; exact H.
Qed.

Ltac pfin := unfold nprobes;
  cbn [fst set_ctr set_conn set_regime reset_link drop_queue upd_q acc ctr]; lia.

Lemma step_link_potential : forall hw o j l, inv l ->
  potential (fst (step_link hw o j l)) <= potential l + routed_data_op o /\
  nprobes l <= nprobes (fst (step_link hw o j l)).
Proof.
  intros hw o j l Hinv. pose proof Hinv as (_ & Hc & _). unfold ctr_ok in Hc. unfold potential.
  destruct o as [now pkt sel reg gated orc|now orc|i r|i k|i b|eff ctl|ctl]; cbn [step_link routed_data_op].
  - destruct pkt as [|b0 pkt']; [pfin|]. destruct sel as [i|]; [|pfin].
    assert (Hd : 0 <= (if is_some (seq_of (b0 :: pkt')) then 1 else 0)) by (destruct (is_some _); lia).
    destruct (Nat.eqb j i).
    + destruct (queue_and_flush _ _ _ l) as [l' w] eqn:Hq. cbn [fst].
      pose proof (qaf_ctr _ _ _ _ _ _ Hq) as Hctr. apply qaf_spec in Hq.
      destruct Hq as (_ & _ & Ha & _). rewrite (nprobes_unique _ _ _ Ha). lia.
    + destruct (reg && is_some _ && nth j gated false && connected l) eqn:Hcond; [|pfin].
      assert (Hdata : is_some (seq_of (b0 :: pkt')) = true).
      { apply andb_true_iff in Hcond. destruct Hcond as (Hcond & _).
        apply andb_true_iff in Hcond. destruct Hcond as (Hcond & _).
        apply andb_true_iff in Hcond. tauto. }
      rewrite Hdata.
      destruct (STALL_PROBE_ONE_IN_N <=? ctr l + 1) eqn:Hn.
      * destruct (queue_and_flush _ _ _ (set_ctr 0 l)) as [l' w] eqn:Hq. cbn [fst].
        pose proof (qaf_ctr _ _ _ _ _ _ Hq) as Hctr. apply qaf_spec in Hq.
        destruct Hq as (_ & _ & Ha & _). cbn [acc set_ctr ctr] in *.
        rewrite (nprobes_probe l l' _ Ha). lia.
      * pfin.
  - destruct (hw && has_queued l && has_io l); [|pfin].
    destruct (flush_link now (orc_of orc j) l) as [[l2 out] ok] eqn:Hf. cbn [fst].
    apply flush_link_spec in Hf. destruct Hf as (k & _ & _ & -> & _). pfin.
  - destruct (Nat.eqb j i); pfin.
  - destruct (Nat.eqb j i); [destruct k|]; pfin.
  - destruct (Nat.eqb j i); pfin.
  - cbn [fst]. destruct (nth j eff HKeep) as [|r|k]; [| |destruct k]; pfin.
  - pfin.
Qed.

(** ---- a flush tick empties every queue that has I/O ---- *)
Lemma step_flush_empties : forall ls now orc,
  Forall (fun l => has_io l = true -> queue l = []) (fst (step ls (FlushTick now orc))).
Proof.
  intros ls now orc. unfold step. cbn [fst].
  assert (Hhw : forall l, In l ls -> has_queued l = true -> existsb has_queued ls = true).
  { intros l Hin Hq. apply existsb_exists. exists l. split; assumption. }
  revert Hhw. generalize (existsb has_queued ls) as hw. generalize 0%nat as j.
  induction ls as [|l t IH]; intros j hw Hhw; cbn [step_links map]; [constructor|].
  constructor.
  - cbn [step_link]. destruct (has_queued l) eqn:Hq.
    + rewrite (Hhw l (or_introl eq_refl) Hq). cbn [andb].
      destruct (has_io l) eqn:Hio.
      * destruct (flush_link now (orc_of orc j) l) as [[l2 out] ok] eqn:Hf. cbn [fst].
        apply flush_link_spec in Hf. destruct Hf as (k & _ & _ & -> & _). reflexivity.
      * cbn. intro H; rewrite Hio in H; discriminate.
    + rewrite andb_false_r. cbn. intros _. unfold has_queued in Hq.
      destruct (queue l); [reflexivity|]. rewrite blen_nat in Hq. cbn in Hq. lia.
  - apply IH. intros l0 Hin. apply Hhw. right; exact Hin.
Qed.

(** ---- lifting to op lists ---- *)
Definition dlink : link :=
  init_link {| i_regime := Normal; i_conn := false; i_ctr := 0; i_io := false |}.

Definition routed_to (j : nat) (ops : list op) : list dgram := flat_map (routed_to_op j) ops.
Definition routed_data (ops : list op) : Z := fold_right (fun o a => routed_data_op o + a) 0 ops.

Lemma exec_app : forall a b ls, exec ls (a ++ b) = exec (exec ls a) b.
Proof. induction a as [|o t IH]; intros b ls; cbn [exec app]; [reflexivity|apply IH]. Qed.

Lemma Forall_nth_inv : forall ls j, Forall inv ls -> (j < length ls)%nat -> inv (nth j ls dlink).
Proof. intros ls j H Hj. rewrite Forall_forall in H. apply H, nth_In, Hj. Qed.

Lemma exec_uniques : forall ops ls j, (j < length ls)%nat ->
  uniques (nth j (exec ls ops) dlink) = uniques (nth j ls dlink) ++ routed_to j ops.
Proof.
  induction ops as [|o t IH]; intros ls j Hj; cbn [exec routed_to flat_map].
  - rewrite app_nil_r. reflexivity.
  - rewrite IH by (rewrite step_length; exact Hj).
    rewrite nth_step by exact Hj. rewrite step_link_uniques, <- app_assoc. reflexivity.
Qed.

Lemma exec_potential : forall ops ls j, Forall inv ls -> (j < length ls)%nat ->
  potential (nth j (exec ls ops) dlink) <= potential (nth j ls dlink) + routed_data ops /\
  nprobes (nth j ls dlink) <= nprobes (nth j (exec ls ops) dlink).
Proof.
  induction ops as [|o t IH]; intros ls j Hinv Hj; cbn [exec].
  - cbn. lia.
  - change (routed_data (o :: t)) with (routed_data_op o + routed_data t).
    destruct (IH (fst (step ls o)) j (step_inv _ _ Hinv)) as [H1 H2]; [rewrite step_length; exact Hj|].
    rewrite nth_step in H1, H2 by exact Hj.
    destruct (step_link_potential (existsb has_queued ls) o j (nth j ls dlink) (Forall_nth_inv _ _ Hinv Hj)) as [H3 H4].
    lia.
Qed.

Lemma init_nth_acc : forall xs j, acc (nth j (init xs) dlink) = [].
Proof.
  intros xs j. unfold init. destruct (Nat.lt_ge_cases j (length xs)) as [H|H].
  - rewrite nth_indep with (d' := init_link {| i_regime := Normal; i_conn := false; i_ctr := 0; i_io := false |})
      by (rewrite map_length; exact H).
    rewrite map_nth. reflexivity.
  - rewrite nth_overflow by (rewrite map_length; exact H). reflexivity.
Qed.

(** ---- datagrams are lost only on a failed send or a reset of that link ---- *)
Definition lostl (f : list (cpy * fate)) : list cpy := map fst (filter (fun x => negb (is_sent x)) f).
Lemma lostl_app : forall f g, lostl (f ++ g) = lostl f ++ lostl g.
Proof. intros. unfold lostl. rewrite filter_app, map_app. reflexivity. Qed.
Lemma lostl_sent : forall q, lostl (map (tag Sent) q) = [].
Proof. induction q as [|e t IH]; cbn; [reflexivity|exact IH]. Qed.
Lemma lostl_lost : forall q, lostl (map (tag Lost) q) = map cpy_of q.
Proof. induction q as [|e t IH]; cbn; [reflexivity|]. unfold lostl in IH. rewrite IH. reflexivity. Qed.

(** may link j lose datagrams in this op? *)
Definition may_lose (o : op) (j : nat) : Prop :=
  match o with
  | Client _ _ _ _ _ orc | FlushTick _ orc => has_fail (orc_of orc j) = true
  | Reset i _ => i = j
  | House eff _ => exists k, nth j eff HKeep = HReset k
  | _ => False
  end.

Lemma qaf_lost : forall now e orc l l' w,
  queue_and_flush now e orc l = (l', w) -> lost_of l' <> lost_of l -> has_fail orc = true.
Proof.
  intros now e orc l l' w H Hne. apply qaf_spec in H.
  destruct H as (_ & _ & _ & [(-> & _)|(k & _ & _ & _ & _ & Hf & [(-> & _)|(_ & Hfail & _)])]).
  - exfalso. apply Hne. reflexivity.
  - exfalso. apply Hne. unfold lost_of. fold (lostl (fates l')). fold (lostl (fates l)).
    cbn zeta in Hf. rewrite Hf, !lostl_app, lostl_sent, lostl_lost, skipn_all. cbn. rewrite app_nil_r. reflexivity.
  - exact Hfail.
Qed.

Lemma step_link_lost : forall hw o j l,
  lost_of (fst (step_link hw o j l)) <> lost_of l -> may_lose o j.
Proof.
  intros hw o j l. destruct o as [now pkt sel reg gated orc|now orc|i r|i k|i b|eff ctl|ctl];
    cbn [step_link may_lose].
  - destruct pkt as [|b0 pkt']; [intro H; exfalso; apply H; reflexivity|].
    destruct sel as [i|]; [|intro H; exfalso; apply H; reflexivity].
    destruct (Nat.eqb j i).
    + destruct (queue_and_flush _ _ _ l) as [l' w] eqn:Hq. cbn [fst]. eapply qaf_lost; eassumption.
    + destruct (reg && is_some _ && nth j gated false && connected l); [|intro H; exfalso; apply H; reflexivity].
      destruct (STALL_PROBE_ONE_IN_N <=? ctr l + 1); [|intro H; exfalso; apply H; reflexivity].
      destruct (queue_and_flush _ _ _ (set_ctr 0 l)) as [l' w] eqn:Hq. cbn [fst].
      intro H. eapply qaf_lost; [eassumption|exact H].
  - destruct (hw && has_queued l && has_io l); [|intro H; exfalso; apply H; reflexivity].
    destruct (flush_link now (orc_of orc j) l) as [[l2 out] ok] eqn:Hf. cbn [fst].
    apply flush_link_spec in Hf. destruct Hf as (k & _ & _ & -> & Hok & Hbad).
    destruct ok; [|intros _; apply Hbad; reflexivity].
    intro H. exfalso. apply H. unfold lost_of. cbn [fates upd_q].
    fold (lostl (fates l)). change (map fst (filter (fun x => negb (is_sent x)) ?f)) with (lostl f).
    rewrite (Hok eq_refl), !lostl_app, lostl_sent, lostl_lost, skipn_all. cbn. rewrite app_nil_r. reflexivity.
  - destruct (Nat.eqb j i); intro H; exfalso; apply H; reflexivity.
  - destruct (Nat.eqb j i) eqn:E; [intros _; symmetry; apply Nat.eqb_eq, E|intro H; exfalso; apply H; reflexivity].
  - destruct (Nat.eqb j i); intro H; exfalso; apply H; reflexivity.
  - cbn [fst]. destruct (nth j eff HKeep) as [|r|k]; [intro H; exfalso; apply H; reflexivity
      |intro H; exfalso; apply H; reflexivity|intros _; exists k; reflexivity].
  - intro H; exfalso; apply H; reflexivity.
Qed.

(** a routed datagram goes to one uplink only *)
Lemma routed_one_uplink : forall o j1 j2, j1 <> j2 -> routed_to_op j1 o = [] \/ routed_to_op j2 o = [].
Proof.
  intros o j1 j2 Hne. destruct o as [now pkt sel reg gated orc| | | | | |]; try (left; reflexivity).
  destruct pkt as [|b p]; [left; reflexivity|]. destruct sel as [i|]; [|left; reflexivity].
  cbn. destruct (Nat.eqb j1 i) eqn:E1; [|left; reflexivity].
  destruct (Nat.eqb j2 i) eqn:E2; [|right; reflexivity].
  apply Nat.eqb_eq in E1, E2. congruence.
Qed.

(** ---- the ghost wire log grows exactly by what the step emits ---- *)
Definition wirel (f : list (cpy * fate)) : list cpy := map fst (filter is_sent f).
Lemma wirel_app : forall f g, wirel (f ++ g) = wirel f ++ wirel g.
Proof. intros. unfold wirel. rewrite filter_app, map_app. reflexivity. Qed.
Lemma wirel_sent : forall q, wirel (map (tag Sent) q) = map cpy_of q.
Proof. induction q as [|e t IH]; cbn; [reflexivity|]. unfold wirel in IH. rewrite IH. reflexivity. Qed.
Lemma wirel_lost : forall q, wirel (map (tag Lost) q) = [].
Proof. induction q as [|e t IH]; cbn; [reflexivity|exact IH]. Qed.
Lemma map_fst_cpy : forall q, map fst (map cpy_of q) = map q_d q.
Proof. intro q. rewrite map_map. reflexivity. Qed.

Lemma qaf_wire : forall now e orc l l' w,
  queue_and_flush now e orc l = (l', w) -> map fst (wire_of l') = map fst (wire_of l) ++ w.
Proof.
  intros now e orc l l' w H. apply qaf_spec in H.
  destruct H as (_ & _ & _ & [(-> & -> & _)|(k & _ & _ & -> & _ & Hf & _)]).
  - rewrite app_nil_r. reflexivity.
  - cbn zeta in Hf. unfold wire_of. fold (wirel (fates l')). fold (wirel (fates l)).
    rewrite Hf, !wirel_app, wirel_sent, wirel_lost, app_nil_r, map_app, map_fst_cpy. reflexivity.
Qed.

Definition emits_client_data (o : op) : bool :=
  match o with House _ _ | Other _ => false | _ => true end.

Lemma step_link_wire : forall hw o j l,
  if emits_client_data o
  then map fst (wire_of (fst (step_link hw o j l))) = map fst (wire_of l) ++ snd (step_link hw o j l)
  else wire_of (fst (step_link hw o j l)) = wire_of l.
Proof.
  intros hw o j l. destruct o as [now pkt sel reg gated orc|now orc|i r|i k|i b|eff ctl|ctl];
    cbn [step_link emits_client_data].
  - destruct pkt as [|b0 pkt']; [cbn; rewrite app_nil_r; reflexivity|].
    destruct sel as [i|]; [|cbn; rewrite app_nil_r; reflexivity].
    destruct (Nat.eqb j i).
    + destruct (queue_and_flush _ _ _ l) as [l' w] eqn:Hq. cbn [fst snd]. eapply qaf_wire; eassumption.
    + destruct (reg && is_some _ && nth j gated false && connected l); [|cbn; rewrite app_nil_r; reflexivity].
      destruct (STALL_PROBE_ONE_IN_N <=? ctr l + 1); [|cbn; rewrite app_nil_r; reflexivity].
      destruct (queue_and_flush _ _ _ (set_ctr 0 l)) as [l' w] eqn:Hq. cbn [fst snd].
      apply qaf_wire in Hq. exact Hq.
  - destruct (hw && has_queued l && has_io l); [|cbn; rewrite app_nil_r; reflexivity].
    destruct (flush_link now (orc_of orc j) l) as [[l2 out] ok] eqn:Hf. cbn [fst snd].
    apply flush_link_spec in Hf. destruct Hf as (k & _ & -> & -> & _).
    unfold wire_of. cbn [fates upd_q]. fold (wirel (fates l)).
    change (map fst (filter is_sent ?f)) with (wirel f).
    rewrite !wirel_app, wirel_sent, wirel_lost, app_nil_r, map_app, map_fst_cpy. reflexivity.
  - destruct (Nat.eqb j i); cbn; rewrite app_nil_r; reflexivity.
  - destruct (Nat.eqb j i); [|cbn; rewrite app_nil_r; reflexivity].
    cbn [fst snd]. rewrite app_nil_r. unfold wire_of.
    destruct k; cbn [reset_link set_ctr set_conn drop_queue upd_q fates];
      change (map fst (filter is_sent ?f)) with (wirel f); rewrite wirel_app, wirel_lost, app_nil_r; reflexivity.
  - destruct (Nat.eqb j i); cbn; rewrite app_nil_r; reflexivity.
  - cbn [fst]. destruct (nth j eff HKeep) as [|r|k]; [reflexivity|reflexivity|].
    unfold wire_of.
    destruct k; cbn [reset_link set_ctr set_conn drop_queue upd_q fates];
      change (map fst (filter is_sent ?f)) with (wirel f); rewrite wirel_app, wirel_lost, app_nil_r; reflexivity.
  - reflexivity.
Qed.
