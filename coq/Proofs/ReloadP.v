(** Proofs/ReloadP.v — lemmas about the reload model (Model/Reload.v). *)
From Srtla Require Import Base Constants Reload.
From Coq Require Import ZifyBool.

(** ---------------------------------------------------------------- lists *)
Arguments mem : simpl never.
Arguments keep : simpl never.
Arguments io_insert : simpl never.
Arguments io_remove : simpl never.
Arguments trk_insert : simpl never.
Arguments trk_remove : simpl never.

Lemma mem_In : forall a l, mem a l = true <-> In a l.
Proof.
  intros a l. unfold mem. rewrite existsb_exists. split.
  - intros [x [Hin Heq]]. apply Z.eqb_eq in Heq. subst. exact Hin.
  - intro H. exists a. split; [exact H | apply Z.eqb_refl].
Qed.
Lemma mem_nIn : forall a l, mem a l = false <-> ~ In a l.
Proof.
  intros a l. rewrite <- mem_In. destruct (mem a l); intuition congruence.
Qed.
Lemma mem_cons : forall a x l, mem a (x :: l) = (a =? x) || mem a l.
Proof. reflexivity. Qed.

Lemma filter_filter : forall {A} (f g : A -> bool) l,
  filter f (filter g l) = filter (fun x => g x && f x) l.
Proof.
  intros A f g l. induction l as [|x t IH]; simpl; [reflexivity|].
  destruct (g x); simpl; [destruct (f x)|]; rewrite IH; reflexivity.
Qed.
Lemma filter_ext_in' : forall {A} (f g : A -> bool) l,
  (forall x, In x l -> f x = g x) -> filter f l = filter g l.
Proof.
  intros A f g l H. induction l as [|x t IH]; simpl; [reflexivity|].
  rewrite (H x (or_introl eq_refl)). rewrite IH; [reflexivity|].
  intros y Hy. apply H. right. exact Hy.
Qed.
Lemma filter_all : forall {A} (f : A -> bool) l,
  (forall x, In x l -> f x = true) -> filter f l = l.
Proof.
  intros A f l H. induction l as [|x t IH]; simpl; [reflexivity|].
  rewrite (H x (or_introl eq_refl)). f_equal. apply IH. intros y Hy. apply H. right. exact Hy.
Qed.
Lemma filter_length_split : forall {A} (f : A -> bool) l,
  (length (filter f l) + length (filter (fun x => negb (f x)) l) = length l)%nat.
Proof.
  intros A f l. induction l as [|x t IH]; simpl; [reflexivity|].
  destruct (f x); simpl; lia.
Qed.
Lemma filter_neg_nil : forall {A} (f : A -> bool) l,
  filter (fun x => negb (f x)) l = [] -> filter f l = l.
Proof.
  intros A f l H. apply filter_all. intros x Hx.
  destruct (f x) eqn:E; [reflexivity|].
  assert (In x (filter (fun x => negb (f x)) l)) by (apply filter_In; rewrite E; auto).
  rewrite H in H0. destruct H0.
Qed.

Lemma NoDup_map_filter : forall {A B} (g : A -> B) (f : A -> bool) l,
  NoDup (map g l) -> NoDup (map g (filter f l)).
Proof.
  intros A B g f l H. induction l as [|x t IH]; simpl in *; [constructor|].
  inversion H; subst. destruct (f x); simpl.
  - constructor; [|apply IH; assumption].
    intro Hin. apply H2. apply in_map_iff in Hin. destruct Hin as [y [Hy Hin]].
    apply filter_In in Hin. apply in_map_iff. exists y. tauto.
  - apply IH. assumption.
Qed.
Lemma NoDup_map_inj : forall {A B} (g : A -> B) l a b,
  NoDup (map g l) -> In a l -> In b l -> g a = g b -> a = b.
Proof.
  intros A B g l a b H. induction l as [|x t IH]; simpl; intros Ha Hb Heq; [destruct Ha|].
  inversion H; subst.
  destruct Ha as [Ha|Ha]; destruct Hb as [Hb|Hb]; subst; auto.
  - exfalso. apply H2. rewrite Heq. apply in_map. exact Hb.
  - exfalso. apply H2. rewrite <- Heq. apply in_map. exact Ha.
Qed.
Lemma In_firstn' : forall {A} n (l : list A) x, In x (firstn n l) -> In x l.
Proof.
  intros A n. induction n as [|n IH]; intros l x H; simpl in H; [destruct H|].
  destruct l as [|y t]; [destruct H|]. destruct H as [H|H]; [left; exact H|right; apply IH; exact H].
Qed.
Lemma NoDup_firstn : forall {A} n (l : list A), NoDup l -> NoDup (firstn n l).
Proof.
  intros A n. induction n as [|n IH]; intros l H; simpl; [constructor|].
  destruct l as [|x t]; [constructor|]. inversion H; subst. constructor.
  - intro Hin. apply H2. eapply In_firstn'. exact Hin.
  - apply IH. assumption.
Qed.

(** ---------------------------------------------------------------- reload.rs *)
(** "the parsable lines in order": map/filter over the lines *)
Definition spec_lines (o : orc) (ls : list (list Z)) : list addr :=
  flat_map (fun l => match trim l with
                     | [] => []
                     | tr => match orc_get o tr with Some a => [a] | None => [] end
                     end) ls.

Lemma analyze_loop_ips : forall o ls idx ips fi saw,
  fst (fst (analyze_loop o ls idx ips fi saw)) = ips ++ spec_lines o ls.
Proof.
  intros o ls. induction ls as [|l t IH]; intros idx ips fi saw; simpl.
  - rewrite app_nil_r. reflexivity.
  - destruct (trim l) as [|z l0] eqn:E.
    + rewrite IH. reflexivity.
    + destruct (orc_get o (z :: l0)) as [ip|].
      * rewrite IH. rewrite <- app_assoc. reflexivity.
      * rewrite IH. reflexivity.
Qed.

Lemma analyze_text_spec : forall o text,
  match analyze_text o text with
  | AApply ips _ => ips = spec_lines o (lines text) /\ ips <> []
  | ARefuse _ => spec_lines o (lines text) = []
  end.
Proof.
  intros o text. unfold analyze_text.
  pose proof (analyze_loop_ips o (lines text) 0 [] None false) as H.
  destruct (analyze_loop o (lines text) 0 [] None false) as [[ips fi] saw].
  simpl in H. subst ips.
  destruct (spec_lines o (lines text)) as [|a r].
  - destruct saw; reflexivity.
  - split; [reflexivity|discriminate].
Qed.

(** ---------------------------------------------------------------- sequence.rs *)
Lemma trk_lookup_notin : forall k t, ~ In k (map fst t) -> trk_lookup k t = None.
Proof.
  intros k t. induction t as [|[k' e] r IH]; simpl; intro H; [reflexivity|].
  destruct (k' =? k) eqn:E.
  - apply Z.eqb_eq in E. exfalso. apply H. left. exact E.
  - apply IH. intro Hin. apply H. right. exact Hin.
Qed.

Lemma trk_lookup_filter : forall (P : entry -> bool) k t,
  NoDup (map fst t) ->
  trk_lookup k (filter (fun p => P (snd p)) t) =
  match trk_lookup k t with Some e => if P e then Some e else None | None => None end.
Proof.
  intros P k t. induction t as [|[k' e] r IH]; simpl; intro H; [reflexivity|].
  inversion H; subst.
  destruct (P e) eqn:EP; simpl.
  - destruct (k' =? k); [rewrite EP; reflexivity|apply IH; assumption].
  - destruct (k' =? k) eqn:E.
    + apply Z.eqb_eq in E. subst k'. rewrite EP.
      rewrite IH by assumption. rewrite (trk_lookup_notin k r) by assumption. reflexivity.
    + apply IH. assumption.
Qed.

Lemma trk_get_filter : forall rid seq now t,
  NoDup (map fst t) ->
  trk_get seq now (filter (fun p => negb (mem (e_id (snd p)) rid)) t) =
  match trk_get seq now t with
  | Some j => if mem j rid then None else Some j
  | None => None
  end.
Proof.
  intros rid seq now t H. unfold trk_get.
  rewrite (trk_lookup_filter (fun e => negb (mem (e_id e) rid))) by assumption.
  destruct (trk_lookup (slot seq) t) as [e|]; [|reflexivity].
  destruct (mem (e_id e) rid) eqn:EM; simpl.
  - destruct (entry_valid e seq now); [rewrite EM|]; reflexivity.
  - destruct (entry_valid e seq now); [rewrite EM|]; reflexivity.
Qed.

Lemma trk_get_id_in : forall seq now t j,
  trk_get seq now t = Some j -> exists k e, In (k, e) t /\ e_id e = j.
Proof.
  intros seq now t j. unfold trk_get.
  destruct (trk_lookup (slot seq) t) as [e|] eqn:E; [|discriminate].
  destruct (entry_valid e seq now); [|discriminate]. intro H. injection H as H.
  exists (slot seq), e. split; [|exact H].
  clear H. induction t as [|[k' e'] r IH]; simpl in E; [discriminate|].
  destruct (k' =? slot seq) eqn:EK.
  - apply Z.eqb_eq in EK. injection E as E. subst. left. reflexivity.
  - right. apply IH. exact E.
Qed.

(** ---------------------------------------------------------------- ConnIoMap *)
Lemma io_get_filter : forall rid id m,
  io_get id (filter (fun p => negb (mem (fst p) rid)) m) =
  if mem id rid then None else io_get id m.
Proof.
  intros rid id m. induction m as [|[k v] r IH]; simpl.
  - destruct (mem id rid); reflexivity.
  - destruct (mem k rid) eqn:EM; simpl.
    + destruct (k =? id) eqn:E.
      * apply Z.eqb_eq in E. subst k. rewrite EM in *. rewrite IH. reflexivity.
      * exact IH.
    + destruct (k =? id) eqn:E.
      * apply Z.eqb_eq in E. subst k. rewrite EM. reflexivity.
      * exact IH.
Qed.

Lemma io_get_remove : forall k id m,
  io_get id (io_remove k m) = if k =? id then None else io_get id m.
Proof.
  intros k id m. unfold io_remove. induction m as [|[k' v] r IH]; simpl.
  - destruct (k =? id); reflexivity.
  - destruct (k' =? k) eqn:E1; simpl.
    + apply Z.eqb_eq in E1. subst k'. rewrite IH. destruct (k =? id); reflexivity.
    + destruct (k' =? id) eqn:E2.
      * apply Z.eqb_eq in E2. subst k'. rewrite Z.eqb_sym in E1. rewrite E1. reflexivity.
      * exact IH.
Qed.

Lemma io_get_insert : forall k tok id m,
  io_get id (io_insert k tok m) = if k =? id then Some tok else io_get id m.
Proof.
  intros k tok id m. unfold io_insert. simpl. destruct (k =? id) eqn:E; [reflexivity|].
  rewrite io_get_remove. rewrite E. reflexivity.
Qed.

Lemma io_get_notin : forall id m, ~ In id (map fst m) -> io_get id m = None.
Proof.
  intros id m. induction m as [|[k v] r IH]; simpl; intro H; [reflexivity|].
  destruct (k =? id) eqn:E.
  - apply Z.eqb_eq in E. exfalso. apply H. left. exact E.
  - apply IH. intro Hin. apply H. right. exact Hin.
Qed.
Lemma io_get_in : forall id m, In id (map fst m) -> exists v, io_get id m = Some v.
Proof.
  intros id m. induction m as [|[k v] r IH]; simpl; intro H; [destruct H|].
  destruct (k =? id) eqn:E; [eexists; reflexivity|].
  destruct H as [H|H]; [subst; rewrite Z.eqb_refl in E; discriminate|apply IH; exact H].
Qed.

Lemma keys_filter : forall rid x (m : iomap),
  In x (map fst (filter (fun p => negb (mem (fst p) rid)) m)) <-> In x (map fst m) /\ ~ In x rid.
Proof.
  intros rid x m. rewrite in_map_iff. split.
  - intros [[k v] [Hk Hin]]. simpl in Hk. subst k. apply filter_In in Hin. destruct Hin as [Hin Hm].
    simpl in Hm. split; [apply in_map_iff; exists (x, v); auto|].
    apply mem_nIn. destruct (mem x rid); [discriminate|reflexivity].
  - intros [Hin Hn]. apply in_map_iff in Hin. destruct Hin as [[k v] [Hk Hin]]. simpl in Hk. subst k.
    exists (x, v). split; [reflexivity|]. apply filter_In. split; [exact Hin|]. simpl.
    apply mem_nIn in Hn. rewrite Hn. reflexivity.
Qed.

Lemma keys_remove : forall k x (m : iomap),
  In x (map fst (io_remove k m)) <-> In x (map fst m) /\ x <> k.
Proof.
  intros k x m. unfold io_remove. rewrite in_map_iff. split.
  - intros [[k' v] [Hk Hin]]. simpl in Hk. subst k'. apply filter_In in Hin. destruct Hin as [Hin Hm].
    simpl in Hm. split; [apply in_map_iff; exists (x, v); auto|].
    intro Heq. subst. rewrite Z.eqb_refl in Hm. discriminate.
  - intros [Hin Hn]. apply in_map_iff in Hin. destruct Hin as [[k' v] [Hk Hin]]. simpl in Hk. subst k'.
    exists (x, v). split; [reflexivity|]. apply filter_In. split; [exact Hin|]. simpl.
    destruct (x =? k) eqn:E; [apply Z.eqb_eq in E; contradiction|reflexivity].
Qed.

Lemma keys_insert : forall k tok x (m : iomap),
  In x (map fst (io_insert k tok m)) <-> x = k \/ In x (map fst m).
Proof.
  intros k tok x m. unfold io_insert. simpl. rewrite keys_remove. split.
  - intros [H|[H _]]; [left; symmetry; exact H|right; exact H].
  - intros [H|H]; [left; symmetry; exact H|].
    destruct (Z.eq_dec x k); [left; symmetry; assumption|right; split; assumption].
Qed.

Lemma NoDup_keys_insert : forall k tok (m : iomap),
  NoDup (map fst m) -> NoDup (map fst (io_insert k tok m)).
Proof.
  intros k tok m H. unfold io_insert. simpl. constructor.
  - intro Hin. apply keys_remove in Hin. destruct Hin as [_ Hn]. apply Hn. reflexivity.
  - unfold io_remove. apply NoDup_map_filter. exact H.
Qed.

(** ---------------------------------------------------------------- dedup / needed_ips *)
Lemma dedup_In : forall l seen x, In x (dedup seen l) <-> In x l /\ ~ In x seen.
Proof.
  induction l as [|y t IH]; intros seen x; simpl; [tauto|].
  destruct (mem y seen) eqn:E.
  - apply mem_In in E. rewrite IH. split.
    + intros [H1 H2]. tauto.
    + intros [[H1|H1] H2]; [subst; contradiction|tauto].
  - apply mem_nIn in E. simpl. rewrite IH. simpl. split.
    + intros [H|[H1 H2]]; [subst; tauto|tauto].
    + intros [[H1|H1] H2]; [left; exact H1|].
      destruct (Z.eq_dec y x); [left; assumption|right; split; [assumption|tauto]].
Qed.
Lemma dedup_NoDup : forall l seen, NoDup (dedup seen l).
Proof.
  induction l as [|y t IH]; intros seen; simpl; [constructor|].
  destruct (mem y seen); [apply IH|]. constructor; [|apply IH].
  intro H. apply dedup_In in H. destruct H as [_ H]. apply H. left. reflexivity.
Qed.
Lemma NoDup_filter : forall {A} (f : A -> bool) l, NoDup l -> NoDup (filter f l).
Proof.
  intros A f l H. rewrite <- (map_id (filter f l)). apply NoDup_map_filter. rewrite map_id. exact H.
Qed.

Lemma needed_In : forall current D x,
  In x (needed_ips current D) <-> In x D /\ ~ In x current.
Proof.
  intros current D x. unfold needed_ips. rewrite filter_In. rewrite dedup_In. simpl.
  destruct (mem x current) eqn:E; simpl.
  - apply mem_In in E. split; [intros [_ H]; discriminate|tauto].
  - apply mem_nIn in E. tauto.
Qed.
Lemma needed_NoDup : forall current D, NoDup (needed_ips current D).
Proof. intros. unfold needed_ips. apply NoDup_filter. apply dedup_NoDup. Qed.

(** ---------------------------------------------------------------- create *)
Definition notfail (fail : list addr) (ip : addr) : bool := negb (mem ip fail).
Arguments notfail : simpl never.

Lemma create_props : forall ips fail fresh m tok,
  let r := create ips fail fresh m tok in
  let ls := fst (fst r) in
  let m' := snd (fst r) in
  map l_id ls = firstn (length ls) (map fst fresh) /\
  (forall id, ~ In id (map fst fresh) -> io_get id m' = io_get id m) /\
  (forall x, In x (map fst m') <-> In x (map fst m) \/ In x (map l_id ls)) /\
  (NoDup (map fst m) -> NoDup (map fst m')) /\
  Forall (fun c => l_ip c = l_lab c) ls /\
  ((length (filter (notfail fail) ips) <= length fresh)%nat ->
   map l_lab ls = filter (notfail fail) ips).
Proof.
  induction ips as [|ip t IH]; intros fail fresh m tok; simpl.
  - repeat split; auto; try tauto.
  - assert (Hnf : notfail fail ip = negb (mem ip fail)) by reflexivity.
    rewrite Hnf. destruct (mem ip fail) eqn:EF; simpl.
    + apply IH.
    + destruct fresh as [|[id st] fr].
      * specialize (IH fail [] m tok). simpl in IH.
        destruct IH as [H1 [H2 [H3 [H4 [H5 H6]]]]].
        repeat split; auto; try apply H3. intro Hl. simpl in Hl. lia.
      * specialize (IH fail fr (io_insert id tok m) (tok + 1)).
        destruct (create t fail fr (io_insert id tok m) (tok + 1)) as [[ls m'] tok'] eqn:EC.
        cbn [fst snd] in IH. destruct IH as [H1 [H2 [H3 [H4 [H5 H6]]]]]. cbn [fst snd map length firstn l_id l_lab l_ip In].
        split; [f_equal; exact H1|].
        split.
        { intros id' Hn. rewrite H2 by (intro Hx; apply Hn; right; exact Hx). rewrite io_get_insert.
          destruct (id =? id') eqn:E; [|reflexivity].
          apply Z.eqb_eq in E. exfalso. apply Hn. left. exact E. }
        split.
        { intro x. rewrite H3. rewrite keys_insert. intuition congruence. }
        split.
        { intro Hnd. apply H4. apply NoDup_keys_insert. exact Hnd. }
        split.
        { constructor; [reflexivity|exact H5]. }
        intro Hl. f_equal. apply H6. simpl in Hl. lia.
Qed.

(** ---------------------------------------------------------------- apply_connection_changes *)
Definition rid (s : state) (D : list addr) : list Z :=
  map l_id (filter (fun c => negb (keep D c)) (conns s)).
Definition kept (s : state) (D : list addr) : list link := filter (keep D) (conns s).

Lemma purge_spec : forall ids t m,
  purge ids t m = (filter (fun p => negb (mem (e_id (snd p)) ids)) t,
                   filter (fun p => negb (mem (fst p) ids)) m).
Proof.
  unfold purge. induction ids as [|id r IH]; intros t m; simpl.
  - rewrite !filter_all; auto.
  - rewrite IH. simpl. unfold trk_remove, io_remove. rewrite !filter_filter. f_equal.
    + apply filter_ext_in'. intros [k e] _. simpl. rewrite mem_cons.
      destruct (e_id e =? id); reflexivity.
    + apply filter_ext_in'. intros [k v] _. simpl. rewrite mem_cons.
      destruct (k =? id); reflexivity.
Qed.

Lemma rid_nil_iff : forall s D,
  Nat.eqb (length (kept s D)) (length (conns s)) = true <-> rid s D = [].
Proof.
  intros s D. unfold rid, kept. pose proof (filter_length_split (keep D) (conns s)) as H.
  rewrite Nat.eqb_eq. split.
  - intro E. destruct (filter (fun c => negb (keep D c)) (conns s)) eqn:EG; [reflexivity|].
    simpl in H. lia.
  - intro E. destruct (filter (fun c => negb (keep D c)) (conns s)) eqn:EG; [|discriminate].
    simpl in H. lia.
Qed.

Lemma apply_unfold : forall D fail fresh s,
  let s' := fst (apply_changes D fail fresh s) in
  let m1 := filter (fun p => negb (mem (fst p) (rid s D))) (io s) in
  let need := needed_ips (map l_lab (conns s)) D in
  let r := create need fail fresh m1 (next_tok s) in
  conns s' = kept s D ++ fst (fst r) /\ io s' = snd (fst r) /\
  trk s' = filter (fun p => negb (mem (e_id (snd p)) (rid s D))) (trk s) /\
  sel s' = (match rid s D with [] => sel s | _ => None end) /\
  pend s' = pend s /\
  snd (apply_changes D fail fresh s) = need.
Proof.
  intros D fail fresh s. unfold apply_changes. fold (kept s D). fold (rid s D).
  assert (Hti : (if negb (Nat.eqb (length (kept s D)) (length (conns s)))
                 then purge (rid s D) (trk s) (io s) else (trk s, io s)) =
                (filter (fun p => negb (mem (e_id (snd p)) (rid s D))) (trk s),
                 filter (fun p => negb (mem (fst p) (rid s D))) (io s))).
  { destruct (Nat.eqb (length (kept s D)) (length (conns s))) eqn:E; simpl.
    - apply rid_nil_iff in E. rewrite E. rewrite !filter_all; auto.
    - apply purge_spec. }
  rewrite Hti. simpl.
  destruct (create (needed_ips (map l_lab (conns s)) D) fail fresh
                   (filter (fun p => negb (mem (fst p) (rid s D))) (io s)) (next_tok s))
    as [[added m'] tok'] eqn:EC.
  simpl. repeat split.
  destruct (Nat.eqb (length (kept s D)) (length (conns s))) eqn:E; simpl.
  - apply rid_nil_iff in E. rewrite E. reflexivity.
  - destruct (rid s D) eqn:ER; [|reflexivity].
    apply rid_nil_iff in ER. congruence.
Qed.

(** ---------------------------------------------------------------- facts about one apply *)
Lemma NoDup_app' : forall {A} (l1 l2 : list A),
  NoDup l1 -> NoDup l2 -> (forall x, In x l1 -> ~ In x l2) -> NoDup (l1 ++ l2).
Proof.
  intros A l1 l2 H1 H2 H. induction l1 as [|x t IH]; simpl; [exact H2|].
  inversion H1; subst. constructor.
  - intro Hin. apply in_app_or in Hin. destruct Hin as [Hin|Hin]; [contradiction|].
    apply (H x); [left; reflexivity|exact Hin].
  - apply IH; [assumption|]. intros y Hy. apply H. right. exact Hy.
Qed.

Lemma kept_in : forall s D c, In c (kept s D) <-> In c (conns s) /\ keep D c = true.
Proof. intros. unfold kept. apply filter_In. Qed.
Lemma rid_in : forall s D x,
  In x (rid s D) <-> exists c, In c (conns s) /\ keep D c = false /\ l_id c = x.
Proof.
  intros s D x. unfold rid. rewrite in_map_iff. split.
  - intros [c [Hc Hin]]. apply filter_In in Hin. destruct Hin as [Hin Hk].
    exists c. destruct (keep D c); [discriminate|]. auto.
  - intros [c [Hin [Hk Hc]]]. exists c. split; [exact Hc|]. apply filter_In. rewrite Hk. auto.
Qed.

Lemma kept_not_rid : forall s D c,
  NoDup (ids s) -> In c (kept s D) -> ~ In (l_id c) (rid s D).
Proof.
  intros s D c Hnd Hc Hr. apply kept_in in Hc. destruct Hc as [Hc Hk].
  apply rid_in in Hr. destruct Hr as [d [Hd [Hkd Hid]]].
  assert (d = c) by (eapply (NoDup_map_inj l_id); eauto). subst d. congruence.
Qed.

Lemma ids_split : forall s D x,
  NoDup (ids s) ->
  (In x (ids s) /\ ~ In x (rid s D)) <-> In x (map l_id (kept s D)).
Proof.
  intros s D x Hnd. split.
  - intros [Hin Hn]. unfold ids in Hin. apply in_map_iff in Hin. destruct Hin as [c [Hc Hin]].
    apply in_map_iff. exists c. split; [exact Hc|]. apply kept_in. split; [exact Hin|].
    destruct (keep D c) eqn:E; [reflexivity|]. exfalso. apply Hn. apply rid_in. exists c. auto.
  - intro Hin. apply in_map_iff in Hin. destruct Hin as [c [Hc Hin]]. subst x. split.
    + apply kept_in in Hin. unfold ids. apply in_map. tauto.
    + apply kept_not_rid; assumption.
Qed.

Lemma rid_nil_kept : forall s D, rid s D = [] -> kept s D = conns s.
Proof.
  intros s D H. unfold kept. apply filter_neg_nil. unfold rid in H.
  destruct (filter (fun c => negb (keep D c)) (conns s)); [reflexivity|discriminate].
Qed.

Lemma apply_facts : forall D fail fresh s,
  NoDup (ids s) -> NoDup (map fst (trk s)) ->
  fresh_ok s (needed_ips (map l_lab (conns s)) D) fail fresh ->
  let s' := fst (apply_changes D fail fresh s) in
  let need := needed_ips (map l_lab (conns s)) D in
  exists added,
    conns s' = kept s D ++ added /\
    map l_lab added = filter (notfail fail) need /\
    Forall (fun c => l_ip c = l_lab c) added /\
    (forall x, In x (map l_id added) -> In x (map fst fresh)) /\
    NoDup (map l_id added) /\
    (forall c, In c (kept s D) -> io_get (l_id c) (io s') = io_get (l_id c) (io s)) /\
    (forall id, In id (rid s D) -> io_get id (io s') = None /\ ~ In id (ids s')) /\
    (forall seq now, trk_get seq now (trk s') =
                     match trk_get seq now (trk s) with
                     | Some j => if mem j (rid s D) then None else Some j
                     | None => None
                     end) /\
    sel s' = (match rid s D with [] => sel s | _ => None end) /\
    pend s' = pend s /\
    snd (apply_changes D fail fresh s) = need.
Proof.
  intros D fail fresh s Hnd Htk [Hf1 [Hf2 Hf3]] s' need.
  destruct (apply_unfold D fail fresh s) as [U1 [U2 [U3 [U4 [U5 U6]]]]].
  fold s' in U1, U2, U3, U4, U5. fold need in U1, U2, U6.
  set (m1 := filter (fun p => negb (mem (fst p) (rid s D))) (io s)) in *.
  destruct (create_props need fail fresh m1 (next_tok s)) as [C1 [C2 [C3 [C4 [C5 C6]]]]].
  set (r := create need fail fresh m1 (next_tok s)) in *.
  exists (fst (fst r)).
  assert (Hsub : forall x, In x (map l_id (fst (fst r))) -> In x (map fst fresh)).
  { intros x Hx. rewrite C1 in Hx. eapply In_firstn'. exact Hx. }
  split; [exact U1|].
  split; [apply C6; exact Hf3|].
  split; [exact C5|].
  split; [exact Hsub|].
  split; [rewrite C1; apply NoDup_firstn; exact Hf1|].
  split.
  { intros c Hc. rewrite U2. rewrite C2.
    - unfold m1. rewrite io_get_filter.
      destruct (mem (l_id c) (rid s D)) eqn:E; [|reflexivity].
      apply mem_In in E. exfalso. eapply kept_not_rid; eauto.
    - intro Hin. apply (Hf2 _ Hin). apply kept_in in Hc. unfold ids. apply in_map. tauto. }
  split.
  { intros id Hid.
    assert (Hids : In id (ids s)).
    { apply rid_in in Hid. destruct Hid as [c [Hc [_ Hx]]]. subst id. unfold ids. apply in_map. exact Hc. }
    split.
    - rewrite U2. rewrite C2.
      + unfold m1. rewrite io_get_filter. apply mem_In in Hid. rewrite Hid. reflexivity.
      + intro Hin. apply (Hf2 _ Hin). exact Hids.
    - unfold ids. rewrite U1. rewrite map_app. intro Hin. apply in_app_or in Hin.
      destruct Hin as [Hin|Hin].
      + apply (ids_split s D id Hnd) in Hin. tauto.
      + apply Hsub in Hin. apply (Hf2 _ Hin). exact Hids. }
  split.
  { intros seq now. rewrite U3. apply trk_get_filter. exact Htk. }
  split; [exact U4|].
  split; [exact U5|exact U6].
Qed.

(** ---------------------------------------------------------------- invariant *)
Record Inv (s : state) : Prop := {
  inv_ids : NoDup (ids s);
  inv_trk_keys : NoDup (map fst (trk s));
  inv_io_keys : NoDup (map fst (io s));
  inv_io_ids : forall x, In x (map fst (io s)) <-> In x (ids s);
  inv_trk_ids : forall k e, In (k, e) (trk s) -> In (e_id e) (ids s);
  inv_sel : forall i, sel s = Some i -> 0 <= i < blen (conns s)
}.

Lemma init_inv : Inv init.
Proof.
  constructor; simpl; try constructor; try tauto; try discriminate.
Qed.

Lemma apply_inv : forall D fail fresh s,
  Inv s -> fresh_ok s (needed_ips (map l_lab (conns s)) D) fail fresh ->
  Inv (fst (apply_changes D fail fresh s)).
Proof.
  intros D fail fresh s [I1 I2 I3 I4 I5 I6] Hf.
  destruct (apply_facts D fail fresh s I1 I2 Hf) as [added [A1 [A2 [A3 [A4 [A5 [A6 [A7 [A8 [A9 [A10 A11]]]]]]]]]]].
  destruct (apply_unfold D fail fresh s) as [U1 [U2 [U3 [U4 [U5 U6]]]]].
  set (s' := fst (apply_changes D fail fresh s)) in *.
  destruct Hf as [Hf1 [Hf2 Hf3]].
  set (m1 := filter (fun p => negb (mem (fst p) (rid s D))) (io s)) in *.
  set (need := needed_ips (map l_lab (conns s)) D) in *.
  destruct (create_props need fail fresh m1 (next_tok s)) as [C1 [C2 [C3 [C4 [C5 C6]]]]].
  assert (Hadd : added = fst (fst (create need fail fresh m1 (next_tok s)))).
  { rewrite U1 in A1. apply app_inv_head in A1. symmetry. exact A1. }
  assert (Hids' : ids s' = map l_id (kept s D) ++ map l_id added).
  { unfold ids. rewrite A1. apply map_app. }
  constructor.
  - rewrite Hids'. apply NoDup_app'.
    + unfold kept. apply NoDup_map_filter. exact I1.
    + exact A5.
    + intros x Hx Hy. apply (ids_split s D x I1) in Hx. apply A4 in Hy. apply (Hf2 _ Hy). tauto.
  - rewrite U3. apply NoDup_map_filter. exact I2.
  - rewrite U2. apply C4. unfold m1. apply NoDup_map_filter. exact I3.
  - intro x. rewrite U2. rewrite C3. rewrite <- Hadd. rewrite Hids'. rewrite in_app_iff.
    unfold m1. rewrite keys_filter. rewrite I4. rewrite (ids_split s D x I1). tauto.
  - intros k e Hin. rewrite U3 in Hin. apply filter_In in Hin. destruct Hin as [Hin Hm].
    simpl in Hm. rewrite Hids'. apply in_or_app. left. apply (ids_split s D _ I1).
    split; [eapply I5; exact Hin|]. apply mem_nIn. destruct (mem (e_id e) (rid s D)); [discriminate|reflexivity].
  - intros i Hi. rewrite A9 in Hi. destruct (rid s D) eqn:ER; [|discriminate].
    apply I6 in Hi. rewrite A1. rewrite (rid_nil_kept s D ER). unfold blen in *.
    rewrite app_length. lia.
Qed.

(** ---------------------------------------------------------------- the other ops *)
Lemma Inv_ext : forall s s2,
  conns s2 = conns s -> io s2 = io s -> trk s2 = trk s -> sel s2 = sel s -> Inv s -> Inv s2.
Proof.
  intros s s2 E1 E2 E3 E4 [I1 I2 I3 I4 I5 I6].
  constructor; unfold ids in *; rewrite ?E1, ?E2, ?E3, ?E4; assumption.
Qed.

Lemma set_states_ids : forall ls sts, map l_id (set_states ls sts) = map l_id ls.
Proof.
  induction ls as [|c t IH]; intros sts; simpl; [reflexivity|].
  destruct sts as [|st ts]; simpl; [reflexivity|]. rewrite IH. reflexivity.
Qed.
Lemma set_states_labs : forall ls sts, map l_lab (set_states ls sts) = map l_lab ls.
Proof.
  induction ls as [|c t IH]; intros sts; simpl; [reflexivity|].
  destruct sts as [|st ts]; simpl; [reflexivity|]. rewrite IH. reflexivity.
Qed.
Lemma set_states_length : forall ls sts, length (set_states ls sts) = length ls.
Proof.
  induction ls as [|c t IH]; intros sts; simpl; [reflexivity|].
  destruct sts as [|st ts]; simpl; [reflexivity|]. rewrite IH. reflexivity.
Qed.
Lemma upd_nth_ids : forall n st ls, map l_id (upd_nth n st ls) = map l_id ls.
Proof.
  induction n as [|n IH]; intros st ls; destruct ls as [|c t]; simpl; try reflexivity.
  rewrite IH. reflexivity.
Qed.
Lemma upd_nth_labs : forall n st ls, map l_lab (upd_nth n st ls) = map l_lab ls.
Proof.
  induction n as [|n IH]; intros st ls; destruct ls as [|c t]; simpl; try reflexivity.
  rewrite IH. reflexivity.
Qed.
Lemma upd_nth_length : forall n st ls, length (upd_nth n st ls) = length ls.
Proof.
  induction n as [|n IH]; intros st ls; destruct ls as [|c t]; simpl; try reflexivity.
  rewrite IH. reflexivity.
Qed.
Lemma nth_link_some : forall i ls c,
  nth_link i ls = Some c -> 0 <= i < blen ls /\ In c ls.
Proof.
  intros i ls c. unfold nth_link. destruct (0 <=? i) eqn:E; [|discriminate].
  intro H. split.
  - assert (Hlt : (Z.to_nat i < length ls)%nat) by (apply nth_error_Some; congruence).
    unfold blen. lia.
  - eapply nth_error_In. exact H.
Qed.

Lemma next_inv : forall s o, Inv s -> wf_op s o -> Inv (fst (fst (next s o))).
Proof.
  intros s o HI Hwf. destruct o as [ips fail fresh now|file oc now|fail fresh now|ips fail fresh now
                                  |fwd seq now sts|i st|i st]; simpl in *.
  - (* OCreate *)
    destruct HI as [I1 I2 I3 I4 I5 I6]. destruct Hwf as [Hf1 [Hf2 Hf3]].
    destruct (create_props ips fail fresh (io s) (next_tok s)) as [C1 [C2 [C3 [C4 [C5 C6]]]]].
    destruct (create ips fail fresh (io s) (next_tok s)) as [[added m'] tok'] eqn:EC.
    simpl in *.
    assert (Hsub : forall x, In x (map l_id added) -> In x (map fst fresh)).
    { intros x Hx. rewrite C1 in Hx. eapply In_firstn'. exact Hx. }
    constructor; unfold ids in *; simpl.
    + rewrite map_app. apply NoDup_app'; [exact I1| |].
      * rewrite C1. apply NoDup_firstn. exact Hf1.
      * intros x Hx Hy. apply Hsub in Hy. apply (Hf2 _ Hy). exact Hx.
    + exact I2.
    + apply C4. exact I3.
    + intro x. rewrite C3. rewrite map_app. rewrite in_app_iff. rewrite I4. tauto.
    + intros k e Hin. rewrite map_app. apply in_or_app. left. eapply I5. exact Hin.
    + intros i Hi. apply I6 in Hi. unfold blen in *. rewrite app_length. lia.
  - (* OSighup *)
    destruct (analyze_file oc file); simpl; [|exact HI].
    eapply Inv_ext; [| | | |exact HI]; reflexivity.
  - (* OTick *)
    destruct (pend s) as [ips|] eqn:EP; [|exact HI].
    pose proof (apply_inv ips fail fresh s HI Hwf) as H.
    destruct (apply_changes ips fail fresh s) as [s' att]. simpl in *.
    eapply Inv_ext; [| | | |exact H]; reflexivity.
  - (* OApply *)
    pose proof (apply_inv ips fail fresh s HI Hwf) as H.
    destruct (apply_changes ips fail fresh s) as [s' att]. exact H.
  - (* ORoute *)
    destruct HI as [I1 I2 I3 I4 I5 I6].
    destruct fwd as [i|].
    + destruct (nth_link i (conns s)) as [c|] eqn:EN.
      * apply nth_link_some in EN. destruct EN as [Hr Hc].
        constructor; unfold ids in *; simpl; rewrite ?set_states_ids; auto.
        -- destruct seq as [q|]; [|exact I2]. unfold trk_insert. simpl. constructor.
           ++ intro Hin. apply in_map_iff in Hin. destruct Hin as [[k e] [Hk Hin]].
              apply filter_In in Hin. simpl in *. subst k. rewrite Z.eqb_refl in Hin.
              destruct Hin; discriminate.
           ++ apply NoDup_map_filter. exact I2.
        -- intros k e Hin. destruct seq as [q|]; [|eapply I5; exact Hin].
           unfold trk_insert in Hin. destruct Hin as [Hin|Hin].
           ++ injection Hin as _ He. subst e. simpl. apply in_map. exact Hc.
           ++ apply filter_In in Hin. eapply I5. apply Hin.
        -- intros j Hj. injection Hj as Hj. subst j. unfold blen in *.
           rewrite set_states_length. exact Hr.
      * constructor; unfold ids in *; simpl; rewrite ?set_states_ids; auto.
        intros j Hj. unfold blen in *. rewrite set_states_length. apply I6. exact Hj.
    + constructor; unfold ids in *; simpl; rewrite ?set_states_ids; auto.
      intros j Hj. unfold blen in *. rewrite set_states_length. apply I6. exact Hj.
  - (* OTouch *)
    destruct (nth_link i (conns s)) as [c|]; [|exact HI].
    destruct HI as [I1 I2 I3 I4 I5 I6].
    constructor; unfold ids in *; simpl; rewrite ?upd_nth_ids; auto.
    intros j Hj. unfold blen in *. rewrite upd_nth_length. apply I6. exact Hj.
  - (* OReconn *)
    destruct (nth_link i (conns s)) as [c|] eqn:EN; [|exact HI].
    apply nth_link_some in EN. destruct EN as [Hr Hc].
    destruct HI as [I1 I2 I3 I4 I5 I6].
    constructor; unfold ids in *; cbn [conns io trk sel pend next_tok]; rewrite ?upd_nth_ids; auto.
    + apply NoDup_keys_insert. exact I3.
    + intro x. rewrite keys_insert. rewrite I4. split; [|tauto].
      intros [H|H]; [subst x; apply in_map; exact Hc|exact H].
    + intros j Hj. unfold blen in *. rewrite upd_nth_length. apply I6. exact Hj.
Qed.

Lemma final_inv : forall ops s, Inv s -> wf_ops s ops -> Inv (final_from s ops).
Proof.
  induction ops as [|o t IH]; intros s HI Hwf; simpl in *; [exact HI|].
  destruct Hwf as [H1 H2]. apply IH; [apply next_inv; assumption|exact H2].
Qed.
