(** C06P.v — window range / direction / fast-recovery lemmas for Model/Conn.v. *)
From Srtla Require Import Base Constants Conn Run_Core ConnP CoreRunP Run_C06.
From Coq Require Import ZifyBool.

Definition wf_op (o : op) : Prop :=
  match o with OSetWindow _ w => 1000 <= w <= 60000 | _ => True end.
Definition wf_opb (o : op) : bool :=
  match o with OSetWindow _ w => (1000 <=? w) && (w <=? 60000) | _ => true end.

Definition Inv (c : link) : Prop := 1000 <= window c <= 60000 /\ ovf c = false.

Lemma consts :
  WINDOW_FLOOR = 1000 /\ WINDOW_CEIL = 60000 /\ WINDOW_DEFAULT = 20000 /\ WINDOW_DECR = 100 /\
  WINDOW_INCR = 30 /\ WINDOW_MULT = 1000 /\ FAST_RECOVERY_ENTER_WINDOW = 2000 /\ FAST_RECOVERY_DISABLE_WINDOW = 12000.
Proof. repeat split; reflexivity. Qed.

Lemma o_window_obs c : o_window (obs_link c) = window c. Proof. reflexivity. Qed.
Lemma o_fast_obs c : o_fast (obs_link c) = fast (cg c).
Proof. unfold o_fast, fld, obs_link. cbn. destruct (fast (cg c)); reflexivity. Qed.

Lemma first_clause_all l : Forall (fun p : N * bool => snd p = true) l -> first_clause l = 0%N.
Proof. induction 1 as [|[n b] l H _ IH]; cbn in *; [reflexivity|]. rewrite H. exact IH. Qed.

Lemma i32_ovf_false x : -2000000000 <= x <= 2000000000 -> i32_ovf x = false.
Proof.
  intros H. unfold i32_ovf, i32_min, i32_max, two31.
  apply orb_false_intro; [apply Z.ltb_ge|apply Z.ltb_ge]; lia.
Qed.

Ltac kconst :=
  change WINDOW_INCR with 30 in *; change WINDOW_CEIL with 60000 in *; change WINDOW_FLOOR with 1000 in *;
  change WINDOW_DECR with 100 in *; change WINDOW_DEFAULT with 20000 in *;
  change FAST_RECOVERY_ENTER_WINDOW with 2000 in *; change FAST_RECOVERY_DISABLE_WINDOW with 12000 in *.

(** effect of the primitive congestion functions on (window, fast flag, overflow) *)
Lemma cong_nak_eff c w now : 1000 <= w <= 60000 ->
  snd (fst (cong_nak c w now)) = Z.max (w - 100) 1000 /\ snd (cong_nak c w now) = false /\
  fast (fst (fst (cong_nak c w now))) =
    (if (Z.max (w - 100) 1000 <=? 2000) && negb (fast c) then true else fast c).
Proof.
  intros Hw. unfold cong_nak.
  destruct ((0 <? last_nak c) && (ssub now (last_nak c) <? NAK_BURST_WINDOW_MS));
  [destruct (burst c =? 0)|]; cbn [fst snd fast]; kconst;
  (rewrite i32_ovf_false by lia); repeat split; reflexivity.
Qed.

Lemma ack_classic_eff w inf : 1000 <= w <= 60000 ->
  w <= fst (ack_classic w inf) <= 60000 /\ snd (ack_classic w inf) = false.
Proof.
  intros Hw. unfold ack_classic. destruct (w <? _); cbn [fst snd]; kconst; [|lia].
  rewrite i32_ovf_false by lia. lia.
Qed.

Lemma ack_enhanced_eff c w inf : 1000 <= w <= 60000 ->
  let r := ack_enhanced c w inf in
  w <= snd (fst r) <= 60000 /\ snd r = false /\
  fast (fst (fst r)) = (if fast c && (12000 <=? snd (fst r)) then false else fast c).
Proof.
  intros Hw. cbn zeta. unfold ack_enhanced.
  pose proof (ack_classic_eff w inf Hw) as [H1 H2].
  destruct (ack_classic w inf) as [w1 o1]. cbn [fst snd fast] in *. kconst. auto.
Qed.

Definition rec_base (c : cong) (tsl : Z) : Z :=
  let bonus := if fast c then 2 else 1 in
  if 10000 <? tsl then WINDOW_INCR * 2 * bonus
  else if 7000 <? tsl then WINDOW_INCR * bonus
  else if 5000 <? tsl then Z.quot (WINDOW_INCR * bonus) 2
  else Z.quot (WINDOW_INCR * bonus) 4.

Lemma rec_base_range c tsl v : 0 <= (if v : bool then Z.quot (rec_base c tsl) 2 else rec_base c tsl) <= 120.
Proof.
  unfold rec_base. kconst.
  destruct v, (fast c), (10000 <? tsl), (7000 <? tsl), (5000 <? tsl); vm_compute; split; intro; discriminate.
Qed.

Lemma recovery_eff c w conn now v : 1000 <= w <= 60000 ->
  let r := recovery c w conn now v in
  w <= snd (fst r) <= 60000 /\ snd r = false /\
  (fast (fst (fst r)) = fast c \/ (fast c = true /\ fast (fst (fst r)) = false /\ 12000 <= snd (fst r))).
Proof.
  intros Hw. cbn zeta. unfold recovery.
  destruct (negb conn || (WINDOW_CEIL <=? w)) eqn:E0; [cbn [fst snd]; repeat split; try lia; auto|].
  set (tsl := if negb (0 <? last_nak c) then u64_max else ssub now (last_nak c)).
  destruct ((_ <? tsl) && (_ <? _)); [|cbn [fst snd fast]; repeat split; try lia; auto].
  cbn [fst snd fast].
  pose proof (rec_base_range c tsl v) as Hr. unfold rec_base in Hr. cbn zeta in Hr.
  set (incr := if v then _ else _) in *. kconst.
  rewrite i32_ovf_false by lia.
  repeat split; try lia.
  destruct (fast c) eqn:Ef; cbn [andb]; [|left; reflexivity].
  destruct (12000 <=? Z.min (w + incr) 60000) eqn:E12; [right; repeat split; lia|left; reflexivity].
Qed.

Ltac finish_clauses :=
  apply first_clause_all; repeat constructor; cbn [snd];
  rewrite ?o_window_obs, ?o_fast_obs; cbn [window cg fast].

Lemma global_eff c : Inv c -> Inv (handle_srtla_ack_global c) /\
  window c <= window (handle_srtla_ack_global c) /\ fast (cg (handle_srtla_ack_global c)) = fast (cg c).
Proof.
  intros [Hw Ho]. unfold handle_srtla_ack_global, Inv.
  destruct (connected c && _); cbn [window ovf cg]; [|auto with zarith].
  kconst. rewrite i32_ovf_false by lia. rewrite Ho. repeat split; try lia; reflexivity.
Qed.

Definition up_rel (c c' : link) : Prop :=
  Inv c' /\ window c <= window c' /\
  (fast (cg c') = fast (cg c) \/ (fast (cg c) = true /\ fast (cg c') = false /\ 12000 <= window c')).
Definition down_rel (c c' : link) : Prop :=
  Inv c' /\ window c' <= window c /\
  (fast (cg c') = fast (cg c) \/ (fast (cg c) = false /\ fast (cg c') = true /\ window c' <= 2000)).

Lemma ack_any_eff (c : link) (cl : bool) (inf : Z) : Inv c ->
  let r := if cl then let '(w, o) := ack_classic (window c) inf in (cg c, w, o)
           else ack_enhanced (cg c) (window c) inf in
  1000 <= snd (fst r) <= 60000 /\ window c <= snd (fst r) /\ snd r = false /\
  (fast (fst (fst r)) = fast (cg c) \/
   (fast (cg c) = true /\ fast (fst (fst r)) = false /\ 12000 <= snd (fst r))).
Proof.
  intros [Hw Ho]. cbn zeta. destruct cl.
  - pose proof (ack_classic_eff (window c) inf Hw) as [E Eo].
    destruct (ack_classic _ _) as [w o]. cbn [fst snd] in *. repeat split; try lia; auto.
  - pose proof (ack_enhanced_eff (cg c) (window c) inf Hw) as (E & Eo & Ef). cbn zeta in *.
    destruct (ack_enhanced _ _ _) as [[g w] o]. cbn [fst snd] in *. repeat split; try lia; auto.
    rewrite Ef. destruct (fast (cg c)); cbn [andb]; [|left; reflexivity].
    destruct (12000 <=? w) eqn:E12; [right; repeat split; lia|left; reflexivity].
Qed.

Lemma specific_eff c seq cl now : Inv c -> up_rel c (fst (handle_srtla_ack_specific c seq cl now)).
Proof.
  intros HI. pose proof HI as [Hw Ho]. unfold handle_srtla_ack_specific, up_rel, Inv.
  destruct (log_mem seq (log c)); cbn zeta; [|cbn [fst]; auto with zarith].
  pose proof (ack_any_eff c cl (blen (log_remove seq (log c))) HI) as (H1 & H2 & H3 & H4). cbn zeta in *.
  destruct (if cl then _ else _) as [[g w] o]. cbn [fst snd window ovf cg] in *. subst o. rewrite Ho.
  cbn [orb]. repeat split; try lia; auto.
Qed.

Lemma cc_ack_eff c cl inf : Inv c -> up_rel c (cc_ack c cl inf).
Proof.
  intros HI. pose proof HI as [Hw Ho]. unfold cc_ack, up_rel, Inv.
  pose proof (ack_any_eff c cl inf HI) as (H1 & H2 & H3 & H4). cbn zeta in *.
  destruct (if cl then _ else _) as [[g w] o]. cbn [fst snd window ovf cg] in *. subst o. rewrite Ho.
  cbn [orb]. repeat split; try lia; auto.
Qed.

Lemma nak_fast_cases w (f : bool) :
  let f' := if (Z.max (w - 100) 1000 <=? 2000) && negb f then true else f in
  f' = f \/ (f = false /\ f' = true /\ Z.max (w - 100) 1000 <= 2000).
Proof.
  cbn zeta. destruct (Z.max (w - 100) 1000 <=? 2000) eqn:E; cbn [andb]; [|left; reflexivity].
  destruct f; cbn [negb]; [left; reflexivity|right; repeat split; lia].
Qed.

Lemma nak_eff c seq now : Inv c -> down_rel c (fst (handle_nak c seq now)).
Proof.
  intros HI. pose proof HI as [Hw Ho]. unfold handle_nak, down_rel, Inv.
  destruct (log_mem seq (log c)); cbn zeta; [|cbn [fst]; auto with zarith].
  pose proof (cong_nak_eff (cg c) (window c) now Hw) as (H1 & H2 & H3).
  destruct (cong_nak _ _ _) as [[g w] o]. cbn [fst snd window ovf cg] in *. subst w o. rewrite Ho, H3.
  cbn [orb]. repeat split; try lia. apply nak_fast_cases.
Qed.

Lemma cc_nak_eff c now : Inv c -> down_rel c (cc_nak c now).
Proof.
  intros HI. pose proof HI as [Hw Ho]. unfold cc_nak, down_rel, Inv.
  pose proof (cong_nak_eff (cg c) (window c) now Hw) as (H1 & H2 & H3).
  destruct (cong_nak _ _ _) as [[g w] o]. cbn [fst snd window ovf cg] in *. subst w o. rewrite Ho, H3.
  cbn [orb]. repeat split; try lia. apply nak_fast_cases.
Qed.

Lemma recovery_link_eff c now v : Inv c -> up_rel c (perform_window_recovery c now v).
Proof.
  intros HI. pose proof HI as [Hw Ho]. unfold perform_window_recovery, up_rel, Inv.
  pose proof (recovery_eff (cg c) (window c) (connected c) now v Hw) as (H1 & H2 & H3). cbn zeta in *.
  destruct (recovery _ _ _ _ _) as [[g w] o]. cbn [fst snd window ovf cg] in *. subst o. rewrite Ho.
  cbn [orb]. repeat split; try lia; auto.
Qed.

(** the C06 clauses for one link across one op, as a Prop over (window, fast) before/after *)
Definition clauses_ok (o : op) (i : nat) (c c' : link) : Prop :=
  c06_link o i (obs_link c) (obs_link c') = 0%N.

Ltac open_clauses :=
  unfold clauses_ok, c06_link; apply first_clause_all; repeat constructor; cbn [snd];
  rewrite ?o_window_obs, ?o_fast_obs.

Lemma b2 (b : bool) (P : Prop) : (b = true -> P) -> (if b then true else true) = true. Proof. destruct b; reflexivity. Qed.

Lemma same_ok o i c c' : Inv c -> window c' = window c -> fast (cg c') = fast (cg c) ->
  (is_teardown_of o i = true -> window c = 20000) -> clauses_ok o i c c'.
Proof.
  intros [Hw _] Ew Ef Ht. open_clauses; rewrite ?Ew, ?Ef.
  - lia.
  - destruct (is_teardown_of o i); [rewrite Ht by reflexivity; reflexivity|reflexivity].
  - destruct (is_nak_op o); [lia|reflexivity].
  - destruct (is_ack_or_recovery_op o); [lia|reflexivity].
  - destruct (fast (cg c)); reflexivity.
  - destruct (fast (cg c)); reflexivity.
Qed.

Lemma up_ok o i c c' : Inv c -> Inv c' -> window c <= window c' ->
  (fast (cg c') = fast (cg c) \/ (fast (cg c) = true /\ fast (cg c') = false /\ 12000 <= window c')) ->
  is_teardown_of o i = false -> is_nak_op o = false -> clauses_ok o i c c'.
Proof.
  intros [Hw _] [Hw' _] Hle Hf Ht Hn. open_clauses; rewrite ?Ht, ?Hn.
  - lia.
  - reflexivity.
  - reflexivity.
  - destruct (is_ack_or_recovery_op o); [lia|reflexivity].
  - destruct Hf as [->|(-> & -> & _)]; [destruct (fast (cg c))|]; reflexivity.
  - destruct Hf as [->|(-> & -> & H12)]; [destruct (fast (cg c)); reflexivity|]. cbn. replace (12000 <=? window c') with true by lia. reflexivity.
Qed.

Lemma down_ok o i c c' : Inv c -> Inv c' -> window c' <= window c ->
  (fast (cg c') = fast (cg c) \/ (fast (cg c) = false /\ fast (cg c') = true /\ window c' <= 2000)) ->
  is_teardown_of o i = false -> is_nak_op o = true -> is_ack_or_recovery_op o = false -> clauses_ok o i c c'.
Proof.
  intros [Hw _] [Hw' _] Hle Hf Ht Hn Ha. open_clauses; rewrite ?Ht, ?Hn, ?Ha.
  - lia.
  - reflexivity.
  - lia.
  - reflexivity.
  - destruct Hf as [->|(-> & -> & H2)]; [destruct (fast (cg c)); reflexivity|]. cbn. lia.
  - destruct Hf as [->|(-> & -> & _)]; [destruct (fast (cg c))|]; reflexivity.
Qed.

Lemma at_idx_cases k i c c' fc (P : Prop) :
  at_idx k i c c' fc -> (i = k -> c' = fc -> P) -> (i <> k -> c' = c -> P) -> P.
Proof. intros [[? ?]|[? ?]]; auto. Qed.

Lemma neq_teardown o i k : (match o with OMarkRecovery j | OResetReconnect j => j = k | _ => False end) -> i <> k -> is_teardown_of o i = false.
Proof. destruct o; cbn; try tauto; intros -> H; apply Nat.eqb_neq; auto. Qed.

Theorem c06_link_step o i c c' : wf_op o -> ltrans o i c c' -> Inv c ->
  Inv c' /\ clauses_ok o i c c'.
Proof.
  intros Hwf Ht HI. pose proof HI as [Hw Ho].
  assert (Hsame : forall o', (is_teardown_of o' i = true -> False) -> Inv c /\ clauses_ok o' i c c).
  { intros o' H. split; [exact HI|]. apply same_ok; auto. intros E. destruct (H E). }
  destruct o; cbn [ltrans] in Ht.
  - (* ORegister *) eapply at_idx_cases; [exact Ht| |]; intros Hi ->.
    + split; [exact HI|]. apply same_ok; auto. cbn. discriminate.
    + apply Hsame. cbn. discriminate.
  - subst c'. apply Hsame. cbn. discriminate.
  - (* OSrtAck *) subst c'. unfold handle_srt_ack. destruct (a <=? hwm c).
    + apply Hsame. cbn. discriminate.
    + split; [exact HI|]. apply same_ok; auto. cbn. discriminate.
  - (* OSrtlaAck *) destruct Ht as [->|[->| ->]].
    + apply Hsame. cbn. discriminate.
    + destruct (global_eff c HI) as (HI' & Hle & Hf). split; [exact HI'|].
      apply up_ok; auto.
    + destruct (specific_eff c seq classic now HI) as (HI1 & Hle1 & Hf1).
      destruct (global_eff _ HI1) as (HI2 & Hle2 & Hf2). split; [exact HI2|].
      apply up_ok; auto; [lia|]. rewrite Hf2.
      destruct Hf1 as [->|(E1 & E2 & E3)]; [left; reflexivity|right; repeat split; auto; lia].
  - (* ONak *) destruct Ht as [->| ->].
    + apply Hsame. cbn. discriminate.
    + destruct (nak_eff c seq now HI) as (HI' & Hle & Hf). split; [exact HI'|]. apply down_ok; auto.
  - (* ORecovery *) eapply at_idx_cases; [exact Ht| |]; intros Hi ->.
    + destruct (recovery_link_eff c now vel_hi HI) as (HI' & Hle & Hf). split; [exact HI'|]. apply up_ok; auto.
    + apply Hsame. cbn. discriminate.
  - (* OCcAck *) eapply at_idx_cases; [exact Ht| |]; intros Hi ->.
    + destruct (cc_ack_eff c classic inf HI) as (HI' & Hle & Hf). split; [exact HI'|]. apply up_ok; auto.
    + apply Hsame. cbn. discriminate.
  - (* OCcNak *) eapply at_idx_cases; [exact Ht| |]; intros Hi ->.
    + destruct (cc_nak_eff c now HI) as (HI' & Hle & Hf). split; [exact HI'|]. apply down_ok; auto.
    + apply Hsame. cbn. discriminate.
  - (* OGlobal *) eapply at_idx_cases; [exact Ht| |]; intros Hi ->.
    + destruct (global_eff c HI) as (HI' & Hle & Hf). split; [exact HI'|]. apply up_ok; auto.
    + apply Hsame. cbn. discriminate.
  - (* OMarkRecovery *) eapply at_idx_cases; [exact Ht| |]; intros Hi ->.
    + subst. split; [unfold Inv, mark_for_recovery, reset_core; cbn [window ovf]; kconst; split; [lia|exact Ho]|].
      open_clauses; cbn [window cg fast mark_for_recovery reset_core is_teardown_of is_nak_op is_ack_or_recovery_op is_flag_reset_of];
      kconst; rewrite ?Nat.eqb_refl; try reflexivity; destruct (fast (cg c)); reflexivity.
    + apply Hsame. cbn. intros E. apply Nat.eqb_eq in E. congruence.
  - (* OResetReconnect *) eapply at_idx_cases; [exact Ht| |]; intros Hi ->.
    + subst. split; [unfold Inv, reset_for_reconnect, reset_core; cbn [window ovf]; kconst; split; [lia|exact Ho]|].
      open_clauses; cbn [window cg fast reset_for_reconnect reset_core cong0 is_teardown_of is_nak_op is_ack_or_recovery_op is_flag_reset_of];
      kconst; rewrite ?Nat.eqb_refl; try reflexivity; destruct (fast (cg c)); cbn; rewrite ?orb_true_r; reflexivity.
    + apply Hsame. cbn. intros E. apply Nat.eqb_eq in E. congruence.
  - (* OReg3 *) eapply at_idx_cases; [exact Ht| |]; intros Hi ->.
    + subst. split; [unfold Inv, reg3_clear; cbn [window ovf]; kconst; split; [lia|exact Ho]|].
      open_clauses; cbn [window cg fast reg3_clear cong0 is_teardown_of is_nak_op is_ack_or_recovery_op is_flag_reset_of];
      kconst; rewrite ?Nat.eqb_refl; try reflexivity; try lia; destruct (fast (cg c)); cbn; rewrite ?orb_true_r; reflexivity.
    + apply Hsame. cbn. discriminate.
  - (* OSetConn *) eapply at_idx_cases; [exact Ht| |]; intros Hi ->.
    + split; [exact HI|]. apply same_ok; auto. cbn. discriminate.
    + apply Hsame. cbn. discriminate.
  - (* OSetWindow *) eapply at_idx_cases; [exact Ht| |]; intros Hi ->.
    + cbn in Hwf. split; [split; [exact Hwf|exact Ho]|].
      open_clauses; cbn [window cg fast set_window is_teardown_of is_nak_op is_ack_or_recovery_op is_flag_reset_of];
      try reflexivity; try lia; destruct (fast (cg c)); reflexivity.
    + apply Hsame. cbn. discriminate.
  - (* ORemoveConn *) subst c'. apply Hsame. cbn. discriminate.
Qed.

(** ---------- lifting to states and traces ---------- *)
Definition SInv (s : state) : Prop := Forall Inv (links s).

Lemma step_inv_and_clauses s o : wf_op o -> SInv s ->
  SInv (step s o) /\ c06_links o 0 (obs_state s) (obs_state (step s o)) = 0%N.
Proof.
  intros Hwf HI. pose proof (step_ltrans s o) as HT. unfold SInv, obs_state in *.
  revert HI HT. generalize (links (step s o)). generalize (links s). generalize 0%nat.
  intros j l l' HI HT. induction HT as [j|j x y l l' Hxy HT IH].
  - split; [constructor|reflexivity].
  - inversion HI as [|? ? Hx Hl]; subst.
    destruct (c06_link_step o j x y Hwf Hxy Hx) as [Hy Hc].
    destruct (IH Hl) as [Hl' Hcs]. split; [constructor; assumption|].
    cbn [map c06_links]. unfold clauses_ok in Hc. rewrite Hc. cbn. exact Hcs.
Qed.

Lemma init_inv ids : SInv (init ids).
Proof.
  unfold SInv, init. cbn. induction ids; cbn; constructor; auto.
  unfold Inv, link0. cbn [window ovf]. kconst. split; [lia|reflexivity].
Qed.

Theorem reachable_inv ids ops : Forall wf_op ops -> SInv (run_from (init ids) ops).
Proof.
  intros H. unfold run_from. generalize (init_inv ids). generalize (init ids).
  induction H as [|o ops Ho Hops IH]; intros s Hs; cbn; [exact Hs|].
  apply IH. apply (step_inv_and_clauses s o Ho Hs).
Qed.

Theorem monitor_holds ids ops : Forall wf_op ops -> check_with mon_C06 (model_case ids ops) = 0%N.
Proof.
  intros Hwf. apply (check_with_model mon_C06 (fun _ s => SInv s)).
  - cbn. unfold init, obs_state. cbn. rewrite map_map. 
    assert (H : forallb (fun l : lobs => o_window l =? 20000) (map (fun x => obs_link (link0 x)) ids) = true).
    { induction ids; cbn; [reflexivity|]. exact IHids. }
    rewrite H. reflexivity.
  - apply init_inv.
  - intros m s o HJ Hin. cbn [mon_C06 m_step fst snd].
    assert (Ho : wf_op o) by (rewrite Forall_forall in Hwf; auto).
    destruct (step_inv_and_clauses s o Ho HJ) as [H1 H2]. split; assumption.
Qed.
