(** C06P.v — window range / direction / fast-recovery lemmas for Model/Conn.v. *)
From Srtla Require Import Base Constants Conn Run_Core ConnP CoreRunP Run_C06.
From Coq Require Import ZifyBool.

Definition wf_op (o : op) : Prop :=
  match o with OSetWindow _ w => 1000 <= w <= 60000 | _ => True end.
Definition wf_opb (o : op) : bool :=
  match o with OSetWindow _ w => (1000 <=? w) && (w <=? 60000) | _ => true end.

Definition Inv (c : link) : Prop := 1000 <= window c <= 60000 /\ ovf c = false.

Lemma consts :
  WINDOW_FLOOR = 1000 /\ WINDOW_CEIL = 60000 /\ WINDOW_DEFAULT = 20000 /\ WINDOW_DECR = 100 /\
  WINDOW_INCR = 30 /\ WINDOW_MULT = 1000 /\ FAST_RECOVERY_ENTER_WINDOW = 2000 /\ FAST_RECOVERY_DISABLE_WINDOW = 12000.
Proof. repeat split; reflexivity. Qed.

Lemma o_window_obs c : o_window (obs_link c) = window c. Proof. reflexivity. Qed.
Lemma o_fast_obs c : o_fast (obs_link c) = fast (cg c).
Proof. unfold o_fast, fld, obs_link. cbn. destruct (fast (cg c)); reflexivity. Qed.

Lemma first_clause_all l : Forall (fun p : N * bool => snd p = true) l -> first_clause l = 0%N.
Proof. induction 1 as [|[n b] l H _ IH]; cbn in *; [reflexivity|]. rewrite H. exact IH. Qed.

(** effect of the primitive congestion functions on (window, fast flag, overflow) *)
Lemma cong_nak_eff c w now g w' o : cong_nak c w now = (g, w', o) -> 1000 <= w <= 60000 ->
  w' = Z.max (w - 100) 1000 /\ o = false /\
  fast g = (if (w' <=? 2000) && negb (fast c) then true else fast c).
Proof.
  unfold cong_nak. intros H Hw.
  destruct ((0 <? last_nak c) && (ssub now (last_nak c) <? NAK_BURST_WINDOW_MS));
  [destruct (burst c =? 0)|]; inversion H; subst; clear H; cbn [fast];
  unfold i32_ovf, WINDOW_DECR, WINDOW_FLOOR, WINDOW_MIN, WINDOW_MULT, FAST_RECOVERY_ENTER_WINDOW, i32_min, i32_max, two31 in *;
  repeat split; try reflexivity; lia.
Qed.

Lemma ack_classic_eff w inf w' o : ack_classic w inf = (w', o) -> 1000 <= w <= 60000 ->
  w <= w' <= 60000 /\ o = false.
Proof.
  unfold ack_classic. intros H Hw.
  unfold WINDOW_INCR, WINDOW_CEIL, WINDOW_MAX, WINDOW_MULT, i32_ovf, i32_min, i32_max, two31 in *.
  destruct (w <? _); inversion H; subst; lia.
Qed.

Lemma ack_enhanced_eff c w inf g w' o : ack_enhanced c w inf = (g, w', o) -> 1000 <= w <= 60000 ->
  w <= w' <= 60000 /\ o = false /\ fast g = (if fast c && (12000 <=? w') then false else fast c).
Proof.
  unfold ack_enhanced. intros H Hw. destruct (ack_classic w inf) as [w1 o1] eqn:E.
  apply ack_classic_eff in E; [|exact Hw]. inversion H; subst. cbn [fast].
  unfold FAST_RECOVERY_DISABLE_WINDOW. repeat split; try lia. destruct E as [_ ->]. reflexivity.
Qed.

Lemma recovery_eff c w conn now v g w' o : recovery c w conn now v = (g, w', o) -> 1000 <= w <= 60000 ->
  w <= w' <= 60000 /\ o = false /\
  (fast g = fast c \/ (fast c = true /\ fast g = false /\ 12000 <= w')).
Proof.
  unfold recovery. intros H Hw.
  unfold WINDOW_INCR, WINDOW_CEIL, WINDOW_MAX, WINDOW_MULT, FAST_RECOVERY_DISABLE_WINDOW,
         i32_ovf, i32_min, i32_max, two31 in *.
  destruct (negb conn || (60 * 1000 <=? w)); [inversion H; subst; repeat split; try lia; auto|].
  destruct ((_ <? _) && (_ <? _)); [|inversion H; subst; cbn [fast]; repeat split; try lia; auto].
  inversion H; subst; clear H. cbn [fast].
  assert (Hincr : 0 <= (if v then Z.quot
     (if 10000 <? (if negb (0 <? last_nak c) then u64_max else ssub now (last_nak c)) then 30 * 2 * (if fast c then 2 else 1)
      else if 7000 <? (if negb (0 <? last_nak c) then u64_max else ssub now (last_nak c)) then 30 * (if fast c then 2 else 1)
      else if 5000 <? (if negb (0 <? last_nak c) then u64_max else ssub now (last_nak c)) then Z.quot (30 * (if fast c then 2 else 1)) 2
      else Z.quot (30 * (if fast c then 2 else 1)) 4) 2
     else
     (if 10000 <? (if negb (0 <? last_nak c) then u64_max else ssub now (last_nak c)) then 30 * 2 * (if fast c then 2 else 1)
      else if 7000 <? (if negb (0 <? last_nak c) then u64_max else ssub now (last_nak c)) then 30 * (if fast c then 2 else 1)
      else if 5000 <? (if negb (0 <? last_nak c) then u64_max else ssub now (last_nak c)) then Z.quot (30 * (if fast c then 2 else 1)) 2
      else Z.quot (30 * (if fast c then 2 else 1)) 4)) <= 120).
  { destruct v, (fast c), (10000 <? _), (7000 <? _), (5000 <? _); cbn; lia. }
  set (incr := if v then _ else _) in *.
  repeat split; try lia.
  destruct (fast c) eqn:Ef; cbn [andb]; [|left; reflexivity].
  destruct (12000 <=? Z.min (w + incr) (60 * 1000)) eqn:E12; [right; repeat split; lia|left; reflexivity].
Qed.

Ltac finish_clauses :=
  apply first_clause_all; repeat constructor; cbn [snd];
  rewrite ?o_window_obs, ?o_fast_obs; cbn [window cg fast].

Lemma global_eff c : Inv c -> Inv (handle_srtla_ack_global c) /\
  window c <= window (handle_srtla_ack_global c) /\ fast (cg (handle_srtla_ack_global c)) = fast (cg c).
Proof.
  intros [Hw Ho]. unfold handle_srtla_ack_global, Inv.
  destruct (connected c && _); cbn [window ovf cg]; [|auto with zarith].
  unfold WINDOW_CEIL, WINDOW_MAX, WINDOW_MULT, i32_ovf, i32_min, i32_max, two31. rewrite Ho.
  repeat split; try lia. cbn. lia.
Qed.

Lemma specific_eff c seq cl now : Inv c ->
  let c' := fst (handle_srtla_ack_specific c seq cl now) in
  Inv c' /\ window c <= window c' /\
  (fast (cg c') = fast (cg c) \/ (fast (cg c) = true /\ fast (cg c') = false /\ 12000 <= window c')).
Proof.
  intros [Hw Ho]. unfold handle_srtla_ack_specific, Inv.
  destruct (log_mem seq (log c)); cbn zeta; [|cbn [fst]; auto with zarith].
  destruct cl.
  - destruct (ack_classic _ _) as [w o] eqn:E. cbn [fst window ovf cg].
    apply ack_classic_eff in E; [|exact Hw]. destruct E as [E ->]. rewrite Ho. cbn. auto with zarith.
  - destruct (ack_enhanced _ _ _) as [[g w] o] eqn:E. cbn [fst window ovf cg].
    apply ack_enhanced_eff in E; [|exact Hw]. destruct E as (E & -> & Ef). rewrite Ho. cbn [orb].
    repeat split; try lia. rewrite Ef.
    destruct (fast (cg c)); cbn [andb]; [|left; reflexivity].
    destruct (12000 <=? w) eqn:E12; [right; repeat split; lia|left; reflexivity].
Qed.

Lemma nak_eff c seq now : Inv c ->
  let c' := fst (handle_nak c seq now) in
  Inv c' /\ window c' <= window c /\
  (fast (cg c') = fast (cg c) \/ (fast (cg c) = false /\ fast (cg c') = true /\ window c' <= 2000)).
Proof.
  intros [Hw Ho]. unfold handle_nak, Inv. destruct (log_mem seq (log c)); cbn zeta; [|cbn [fst]; auto with zarith].
  destruct (cong_nak _ _ _) as [[g w] o] eqn:E. cbn [fst window ovf cg].
  apply cong_nak_eff in E; [|exact Hw]. destruct E as (-> & -> & Ef). rewrite Ho. cbn [orb].
  repeat split; try lia. rewrite Ef.
  destruct (Z.max (window c - 100) 1000 <=? 2000) eqn:E2; cbn [andb]; [|left; reflexivity].
  destruct (fast (cg c)); cbn [negb]; [left; reflexivity|right; repeat split; lia].
Qed.

Lemma cc_nak_eff c now : Inv c ->
  let c' := cc_nak c now in
  Inv c' /\ window c' <= window c /\
  (fast (cg c') = fast (cg c) \/ (fast (cg c) = false /\ fast (cg c') = true /\ window c' <= 2000)).
Proof.
  intros [Hw Ho]. unfold cc_nak, Inv.
  destruct (cong_nak _ _ _) as [[g w] o] eqn:E. cbn [fst window ovf cg].
  apply cong_nak_eff in E; [|exact Hw]. destruct E as (-> & -> & Ef). rewrite Ho. cbn [orb].
  repeat split; try lia. rewrite Ef.
  destruct (Z.max (window c - 100) 1000 <=? 2000) eqn:E2; cbn [andb]; [|left; reflexivity].
  destruct (fast (cg c)); cbn [negb]; [left; reflexivity|right; repeat split; lia].
Qed.

Lemma cc_ack_eff c cl inf : Inv c ->
  let c' := cc_ack c cl inf in
  Inv c' /\ window c <= window c' /\
  (fast (cg c') = fast (cg c) \/ (fast (cg c) = true /\ fast (cg c') = false /\ 12000 <= window c')).
Proof.
  intros [Hw Ho]. unfold cc_ack, Inv. destruct cl.
  - destruct (ack_classic _ _) as [w o] eqn:E. cbn [fst window ovf cg].
    apply ack_classic_eff in E; [|exact Hw]. destruct E as [E ->]. rewrite Ho. cbn. auto with zarith.
  - destruct (ack_enhanced _ _ _) as [[g w] o] eqn:E. cbn [fst window ovf cg].
    apply ack_enhanced_eff in E; [|exact Hw]. destruct E as (E & -> & Ef). rewrite Ho. cbn [orb].
    repeat split; try lia. rewrite Ef.
    destruct (fast (cg c)); cbn [andb]; [|left; reflexivity].
    destruct (12000 <=? w) eqn:E12; [right; repeat split; lia|left; reflexivity].
Qed.

Lemma recovery_link_eff c now v : Inv c ->
  let c' := perform_window_recovery c now v in
  Inv c' /\ window c <= window c' /\
  (fast (cg c') = fast (cg c) \/ (fast (cg c) = true /\ fast (cg c') = false /\ 12000 <= window c')).
Proof.
  intros [Hw Ho]. unfold perform_window_recovery, Inv.
  destruct (recovery _ _ _ _ _) as [[g w] o] eqn:E. cbn [window ovf cg].
  apply recovery_eff in E; [|exact Hw]. destruct E as (E & -> & Ef). rewrite Ho. cbn [orb].
  repeat split; try lia. exact Ef.
Qed.

(** the C06 clauses for one link across one op, as a Prop over (window, fast) before/after *)
Definition clauses_ok (o : op) (i : nat) (c c' : link) : Prop :=
  c06_link o i (obs_link c) (obs_link c') = 0%N.

Ltac open_clauses :=
  unfold clauses_ok, c06_link; apply first_clause_all; repeat constructor; cbn [snd];
  rewrite ?o_window_obs, ?o_fast_obs.

Lemma b2 (b : bool) (P : Prop) : (b = true -> P) -> (if b then true else true) = true. Proof. destruct b; reflexivity. Qed.

Lemma same_ok o i c c' : Inv c -> window c' = window c -> fast (cg c') = fast (cg c) ->
  (is_teardown_of o i = true -> window c = 20000) -> clauses_ok o i c c'.
Proof.
  intros [Hw _] Ew Ef Ht. open_clauses; rewrite ?Ew, ?Ef.
  - lia.
  - destruct (is_teardown_of o i); [rewrite Ht by reflexivity; reflexivity|reflexivity].
  - destruct (is_nak_op o); [lia|reflexivity].
  - destruct (is_ack_or_recovery_op o); [lia|reflexivity].
  - destruct (fast (cg c)); reflexivity.
  - destruct (fast (cg c)); reflexivity.
Qed.

Lemma up_ok o i c c' : Inv c -> Inv c' -> window c <= window c' ->
  (fast (cg c') = fast (cg c) \/ (fast (cg c) = true /\ fast (cg c') = false /\ 12000 <= window c')) ->
  is_teardown_of o i = false -> is_nak_op o = false -> clauses_ok o i c c'.
Proof.
  intros [Hw _] [Hw' _] Hle Hf Ht Hn. open_clauses; rewrite ?Ht, ?Hn.
  - lia.
  - reflexivity.
  - reflexivity.
  - destruct (is_ack_or_recovery_op o); [lia|reflexivity].
  - destruct Hf as [->|(-> & -> & _)]; [destruct (fast (cg c))|]; reflexivity.
  - destruct Hf as [->|(-> & -> & H12)]; [destruct (fast (cg c)); reflexivity|]. cbn. replace (12000 <=? window c') with true by lia. reflexivity.
Qed.

Lemma down_ok o i c c' : Inv c -> Inv c' -> window c' <= window c ->
  (fast (cg c') = fast (cg c) \/ (fast (cg c) = false /\ fast (cg c') = true /\ window c' <= 2000)) ->
  is_teardown_of o i = false -> is_nak_op o = true -> is_ack_or_recovery_op o = false -> clauses_ok o i c c'.
Proof.
  intros [Hw _] [Hw' _] Hle Hf Ht Hn Ha. open_clauses; rewrite ?Ht, ?Hn, ?Ha.
  - lia.
  - reflexivity.
  - lia.
  - reflexivity.
  - destruct Hf as [->|(-> & -> & H2)]; [destruct (fast (cg c)); reflexivity|]. cbn. lia.
  - destruct Hf as [->|(-> & -> & _)]; [destruct (fast (cg c))|]; reflexivity.
Qed.

Lemma at_idx_cases k i c c' fc (P : Prop) :
  at_idx k i c c' fc -> (i = k -> c' = fc -> P) -> (i <> k -> c' = c -> P) -> P.
Proof. intros [[? ?]|[? ?]]; auto. Qed.

Lemma neq_teardown o i k : (match o with OMarkRecovery j | OResetReconnect j => j = k | _ => False end) -> i <> k -> is_teardown_of o i = false.
Proof. destruct o; cbn; try tauto; intros -> H; apply Nat.eqb_neq; auto. Qed.

Theorem c06_link_step o i c c' : wf_op o -> ltrans o i c c' -> Inv c ->
  Inv c' /\ clauses_ok o i c c'.
Proof.
  intros Hwf Ht HI. pose proof HI as [Hw Ho].
  assert (Hsame : forall o', (is_teardown_of o' i = true -> False) -> Inv c /\ clauses_ok o' i c c).
  { intros o' H. split; [exact HI|]. apply same_ok; auto. intros E. destruct (H E). }
  destruct o; cbn [ltrans] in Ht.
  - (* ORegister *) eapply at_idx_cases; [exact Ht| |]; intros Hi ->.
    + split; [exact HI|]. apply same_ok; auto. cbn. discriminate.
    + apply Hsame. cbn. discriminate.
  - subst c'. apply Hsame. cbn. discriminate.
  - (* OSrtAck *) subst c'. unfold handle_srt_ack. destruct (a <=? hwm c).
    + apply Hsame. cbn. discriminate.
    + split; [exact HI|]. apply same_ok; auto. cbn. discriminate.
  - (* OSrtlaAck *) destruct Ht as [->|[->| ->]].
    + apply Hsame. cbn. discriminate.
    + destruct (global_eff c HI) as (HI' & Hle & Hf). split; [exact HI'|].
      apply up_ok; auto.
    + destruct (specific_eff c seq classic now HI) as (HI1 & Hle1 & Hf1). cbn zeta in *.
      destruct (global_eff _ HI1) as (HI2 & Hle2 & Hf2). split; [exact HI2|].
      apply up_ok; auto; [lia|]. rewrite Hf2.
      destruct Hf1 as [->|(E1 & E2 & E3)]; [left; reflexivity|right; repeat split; auto; lia].
  - (* ONak *) destruct Ht as [->| ->].
    + apply Hsame. cbn. discriminate.
    + destruct (nak_eff c seq now HI) as (HI' & Hle & Hf). split; [exact HI'|]. apply down_ok; auto.
  - (* ORecovery *) eapply at_idx_cases; [exact Ht| |]; intros Hi ->.
    + destruct (recovery_link_eff c now vel_hi HI) as (HI' & Hle & Hf). split; [exact HI'|]. apply up_ok; auto.
    + apply Hsame. cbn. discriminate.
  - (* OCcAck *) eapply at_idx_cases; [exact Ht| |]; intros Hi ->.
    + destruct (cc_ack_eff c classic inf HI) as (HI' & Hle & Hf). split; [exact HI'|]. apply up_ok; auto.
    + apply Hsame. cbn. discriminate.
  - (* OCcNak *) eapply at_idx_cases; [exact Ht| |]; intros Hi ->.
    + destruct (cc_nak_eff c now HI) as (HI' & Hle & Hf). split; [exact HI'|]. apply down_ok; auto.
    + apply Hsame. cbn. discriminate.
  - (* OGlobal *) eapply at_idx_cases; [exact Ht| |]; intros Hi ->.
    + destruct (global_eff c HI) as (HI' & Hle & Hf). split; [exact HI'|]. apply up_ok; auto.
    + apply Hsame. cbn. discriminate.
  - (* OMarkRecovery *) eapply at_idx_cases; [exact Ht| |]; intros Hi ->.
    + split; [unfold Inv, mark_for_recovery, reset_core; cbn; split; [cbv; split; discriminate|exact Ho]|].
      open_clauses; cbn [window cg fast mark_for_recovery reset_core]; subst i0; rewrite ?Nat.eqb_refl.
      * cbv. reflexivity.
      * reflexivity.
      * reflexivity.
      * reflexivity.
      * destruct (fast (cg c)); reflexivity.
      * destruct (fast (cg c)); reflexivity.
    + apply Hsame. cbn. intros E. apply Nat.eqb_eq in E. congruence.
  - (* OResetReconnect *) eapply at_idx_cases; [exact Ht| |]; intros Hi ->.
    + split; [unfold Inv, reset_for_reconnect, reset_core; cbn; split; [cbv; split; discriminate|exact Ho]|].
      open_clauses; cbn [window cg fast reset_for_reconnect reset_core cong0]; subst i0; rewrite ?Nat.eqb_refl.
      * cbv. reflexivity.
      * reflexivity.
      * reflexivity.
      * reflexivity.
      * reflexivity.
      * destruct (fast (cg c)); cbn; rewrite ?orb_true_r; reflexivity.
    + apply Hsame. cbn. intros E. apply Nat.eqb_eq in E. congruence.
  - (* OReg3 *) eapply at_idx_cases; [exact Ht| |]; intros Hi ->.
    + split; [exact HI|].
      open_clauses; cbn [window cg fast reg3_clear cong0]; subst i0; rewrite ?Nat.eqb_refl.
      * lia.
      * reflexivity.
      * reflexivity.
      * reflexivity.
      * reflexivity.
      * destruct (fast (cg c)); cbn; rewrite ?orb_true_r; reflexivity.
    + apply Hsame. cbn. discriminate.
  - (* OSetConn *) eapply at_idx_cases; [exact Ht| |]; intros Hi ->.
    + split; [exact HI|]. apply same_ok; auto. cbn. discriminate.
    + apply Hsame. cbn. discriminate.
  - (* OSetWindow *) eapply at_idx_cases; [exact Ht| |]; intros Hi ->.
    + cbn in Hwf. split; [split; [exact Hwf|exact Ho]|].
      open_clauses; cbn [window cg fast set_window].
      * lia.
      * reflexivity.
      * reflexivity.
      * reflexivity.
      * destruct (fast (cg c)); reflexivity.
      * destruct (fast (cg c)); cbn. 
Abort.
