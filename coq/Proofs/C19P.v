(** Proofs/C19P.v — the model's own traces satisfy the C19 monitor; Prop-level
    statements behind the theorems of Props/C19.v. *)
From Srtla Require Import Base Constants Reload ReloadP Run_C19.
From Coq Require Import ZifyBool.

Arguments mem : simpl never.
Arguments keep : simpl never.

(** ---------------------------------------------------------------- reflexivity of the comparisons *)
Lemma list_eqb_refl : forall {A} (eqb : A -> A -> bool),
  (forall x, eqb x x = true) -> forall l, list_eqb eqb l l = true.
Proof.
  intros A eqb H l. induction l as [|x t IH]; simpl; [reflexivity|]. rewrite H, IH. reflexivity.
Qed.
Lemma zlist_eqb_refl : forall l, zlist_eqb l l = true.
Proof. apply list_eqb_refl. apply Z.eqb_refl. Qed.
Lemma ozeqb_refl : forall o, ozeqb o o = true.
Proof. destruct o; simpl; [apply Z.eqb_refl|reflexivity]. Qed.
Lemma link_eqb_refl : forall c, link_eqb c c = true.
Proof. intro c. unfold link_eqb. rewrite !Z.eqb_refl, zlist_eqb_refl. reflexivity. Qed.
Lemma links_eqb_refl : forall l, links_eqb l l = true.
Proof. apply list_eqb_refl. apply link_eqb_refl. Qed.

Lemma io_get_first : forall (m : iomap) k v,
  NoDup (map fst m) -> In (k, v) m -> io_get k m = Some v.
Proof.
  induction m as [|[k' v'] r IH]; intros k v Hnd Hin; simpl in *; [destruct Hin|].
  inversion Hnd; subst. destruct Hin as [Hin|Hin].
  - injection Hin as E1 E2. subst. rewrite Z.eqb_refl. reflexivity.
  - destruct (k' =? k) eqn:E.
    + apply Z.eqb_eq in E. subst k'. exfalso. apply H1. apply in_map_iff. exists (k, v). auto.
    + apply IH; assumption.
Qed.
Lemma io_same_refl : forall m, NoDup (map fst m) -> io_same m m = true.
Proof.
  intros m H. unfold io_same. rewrite Nat.eqb_refl. simpl. apply forallb_forall.
  intros [k v] Hin. simpl. rewrite (io_get_first m k v H Hin). simpl. apply Z.eqb_refl.
Qed.
Lemma set_same_refl : forall l, set_same l l = true.
Proof.
  intro l. unfold set_same. rewrite Nat.eqb_refl. simpl. apply forallb_forall.
  intros x Hx. apply mem_In. exact Hx.
Qed.
Lemma snap_eqb_refl : forall a, NoDup (map fst (s_io a)) -> snap_eqb a a = true.
Proof.
  intros a H. unfold snap_eqb.
  rewrite links_eqb_refl, (io_same_refl _ H), ozeqb_refl, set_same_refl.
  rewrite (list_eqb_refl ozeqb ozeqb_refl).
  destruct (s_pend a); simpl; [rewrite zlist_eqb_refl|]; reflexivity.
Qed.

Lemma nodupb_true : forall l, NoDup l -> nodupb l = true.
Proof.
  induction l as [|x t IH]; intro H; simpl; [reflexivity|]. inversion H; subst.
  rewrite IH by assumption. apply mem_nIn in H2. rewrite H2. reflexivity.
Qed.

(** ---------------------------------------------------------------- one apply satisfies clauses 1-6 *)
Lemma firstn_app_exact : forall {A} (l1 l2 : list A), firstn (length l1) (l1 ++ l2) = l1.
Proof. intros A l1 l2. induction l1 as [|x t IH]; simpl; [reflexivity|]. rewrite IH. reflexivity. Qed.
Lemma skipn_app_exact : forall {A} (l1 l2 : list A), skipn (length l1) (l1 ++ l2) = l2.
Proof. intros A l1 l2. induction l1 as [|x t IH]; simpl; [reflexivity|exact IH]. Qed.

Lemma trk_clause : forall gone probes (f g : Z -> option Z),
  (forall q, g q = match f q with Some j => if mem j gone then None else Some j | None => None end) ->
  forallb2 (trk_pair_ok gone) (map f probes) (map g probes) = true.
Proof.
  intros gone probes f g H. induction probes as [|q t IH]; simpl; [reflexivity|].
  rewrite IH, andb_true_r. rewrite H. unfold trk_pair_ok.
  destruct (f q) as [j|]; [|reflexivity].
  destruct (mem j gone); simpl; [reflexivity|apply Z.eqb_refl].
Qed.

Lemma mon_apply_ok : forall probes now D fail fresh s s2,
  Inv s -> fresh_ok s (needed_ips (map l_lab (conns s)) D) fail fresh ->
  conns s2 = conns (fst (apply_changes D fail fresh s)) ->
  io s2 = io (fst (apply_changes D fail fresh s)) ->
  trk s2 = trk (fst (apply_changes D fail fresh s)) ->
  sel s2 = sel (fst (apply_changes D fail fresh s)) ->
  mon_apply D fail (snapshot probes now s) (snapshot probes now s2) = 0%N.
Proof.
  intros probes now D fail fresh s s2 HI Hf E1 E2 E3 E4.
  destruct (apply_facts D fail fresh s (inv_ids s HI) (inv_trk_keys s HI) Hf)
    as [added [A1 [A2 [A3 [A4 [A5 [A6 [A7 [A8 [A9 [A10 A11]]]]]]]]]]].
  set (s' := fst (apply_changes D fail fresh s)) in *.
  set (need := needed_ips (map l_lab (conns s)) D) in *.
  unfold mon_apply, snapshot. cbn [s_links s_io s_sel s_trk]. cbv zeta.
  rewrite E1, E2, E3, E4. fold (kept s D). fold (rid s D). rewrite A1.
  rewrite firstn_app_exact, skipn_app_exact.
  assert (B1 : links_eqb (kept s D) (kept s D) = true) by apply links_eqb_refl.
  assert (B2 : forallb (fun c => ozeqb (io_get (l_id c) (io s')) (io_get (l_id c) (io s))) (kept s D) = true).
  { apply forallb_forall. intros c Hc. rewrite (A6 c Hc). apply ozeqb_refl. }
  assert (B3 : forallb (fun id => negb (mem id (map l_id (kept s D ++ added))) && is_none (io_get id (io s')))
                       (rid s D) = true).
  { apply forallb_forall. intros id Hid. destruct (A7 id Hid) as [H1 H2]. rewrite H1. simpl.
    unfold ids in H2. rewrite A1 in H2. apply mem_nIn in H2. rewrite H2. reflexivity. }
  assert (B4 : forallb2 (trk_pair_ok (rid s D)) (map (fun q => trk_get q now (trk s)) probes)
                        (map (fun q => trk_get q now (trk s')) probes) = true).
  { apply trk_clause. intro q. apply A8. }
  assert (B5a : nodupb (map l_lab added) = true).
  { apply nodupb_true. rewrite A2. apply NoDup_filter. apply needed_NoDup. }
  assert (B5b : forallb (fun c => mem (l_lab c) D && negb (mem (l_lab c) (map l_lab (conns s)))) added = true).
  { apply forallb_forall. intros c Hc.
    assert (Hin : In (l_lab c) (map l_lab added)) by (apply in_map; exact Hc).
    rewrite A2 in Hin. apply filter_In in Hin. destruct Hin as [Hin _].
    apply needed_In in Hin. destruct Hin as [H1 H2].
    apply mem_In in H1. apply mem_nIn in H2. rewrite H1, H2. reflexivity. }
  assert (B5c : forallb (fun a => mem a (map l_lab (conns s)) || mem a fail || mem a (map l_lab added)) D = true).
  { apply forallb_forall. intros a Ha.
    destruct (mem a (map l_lab (conns s))) eqn:M1; [reflexivity|].
    destruct (mem a fail) eqn:M2; [reflexivity|]. simpl.
    apply mem_In. rewrite A2. apply filter_In. split.
    - apply needed_In. split; [exact Ha|apply mem_nIn; exact M1].
    - unfold notfail. rewrite M2. reflexivity. }
  assert (B6 : (match rid s D with [] => true | _ => is_none (sel s') end) = true).
  { rewrite A9. destruct (rid s D); reflexivity. }
  unfold chk. rewrite B1, B2, B3, B4, B5a, B5b, B5c, B6. reflexivity.
Qed.

(** ---------------------------------------------------------------- every step of the model *)
Lemma spec_ips_lines : forall o t, spec_ips o t = spec_lines o (lines t).
Proof. reflexivity. Qed.

Lemma step_fst : forall probes s o, fst (step probes s o) = fst (fst (next s o)).
Proof. intros. unfold step. destruct (next s o) as [[s' r] att]. reflexivity. Qed.

Lemma snapshot_io : forall probes now s, s_io (snapshot probes now s) = io s.
Proof. reflexivity. Qed.

Lemma step_ok : forall probes s o,
  Inv s -> wf_op s o -> mon_step o (snd (step probes s o)) = 0%N.
Proof.
  intros probes s o HI Hwf.
  destruct o as [ips fail fresh now|file oc now|fail fresh now|ips fail fresh now
                |fwd seq now sts|i st|i st]; unfold step; cbn [next op_now].
  - (* OCreate *)
    destruct (create ips fail fresh (io s) (next_tok s)) as [[added m'] tok']. reflexivity.
  - (* OSighup *)
    cbn [snd mon_step]. unfold mon_sighup.
    destruct file as [t|]; cbn [analyze_file].
    + rewrite spec_ips_lines. pose proof (analyze_text_spec oc t) as H.
      destruct (analyze_text oc t) as [l fi|r].
      * destruct H as [H1 H2]. rewrite <- H1. destruct l as [|a l']; [congruence|].
        unfold chk. rewrite zlist_eqb_refl. cbn [snapshot s_pend pend opt_eqb].
        rewrite zlist_eqb_refl. reflexivity.
      * rewrite H. unfold chk. rewrite snap_eqb_refl; [reflexivity|].
        rewrite snapshot_io. apply (inv_io_keys s HI).
    + unfold chk. rewrite snap_eqb_refl; [reflexivity|].
      rewrite snapshot_io. apply (inv_io_keys s HI).
  - (* OTick *)
    cbn [wf_op] in Hwf.
    destruct (pend s) as [D|] eqn:EP.
    + pose proof (mon_apply_ok probes now D fail fresh s) as H.
      destruct (apply_changes D fail fresh s) as [s' att] eqn:EA.
      cbn [snd mon_step]. unfold mon_tick. cbn [snapshot s_pend]. rewrite EP.
      change (snapshot probes now s) with
        {| s_links := conns s; s_io := io s; s_sel := sel s; s_pend := pend s;
           s_trk := map (fun q => trk_get q now (trk s)) probes; s_alive := map snd (io s) |} in H.
      apply H; try assumption; reflexivity.
    + cbn [snd mon_step]. unfold mon_tick. cbn [snapshot s_pend]. rewrite EP.
      unfold chk. rewrite snap_eqb_refl; [reflexivity|]. apply (inv_io_keys s HI).
  - (* OApply *)
    cbn [wf_op] in Hwf.
    pose proof (mon_apply_ok probes now ips fail fresh s) as H.
    destruct (apply_changes ips fail fresh s) as [s' att] eqn:EA.
    cbn [snd mon_step]. apply H; try assumption; reflexivity.
  - reflexivity.
  - reflexivity.
  - reflexivity.
Qed.

Lemma run_ok : forall ops probes s,
  Inv s -> wf_ops s ops -> ok_C19 (run_from probes s ops) = true.
Proof.
  induction ops as [|o t IH]; intros probes s HI Hwf; [reflexivity|].
  cbn [wf_ops] in Hwf. destruct Hwf as [Hw1 Hw2].
  cbn [run_from]. pose proof (step_ok probes s o HI Hw1) as Hs.
  pose proof (step_fst probes s o) as Hf.
  destruct (step probes s o) as [s' ob]. cbn [fst snd] in *.
  unfold ok_C19. cbn [forallb fst snd]. rewrite Hs. cbn [N.eqb andb].
  subst s'. apply IH; [apply next_inv; assumption|exact Hw2].
Qed.

(** ---------------------------------------------------------------- Prop-level statements *)
Lemma refuse_untouched : forall s oc file now,
  (file = None \/ exists t, file = Some t /\ spec_ips oc t = []) ->
  exists r, next s (OSighup file oc now) = (s, Some (ARefuse r), []).
Proof.
  intros s oc file now [H|[t [H1 H2]]]; subst file; cbn [next analyze_file].
  - eexists. reflexivity.
  - rewrite spec_ips_lines in H2. pose proof (analyze_text_spec oc t) as H.
    destruct (analyze_text oc t) as [l fi|r].
    + destruct H as [Ha Hb]. congruence.
    + eexists. reflexivity.
Qed.

Lemma idle_tick_untouched : forall s fail fresh now,
  pend s = None -> next s (OTick fail fresh now) = (s, None, []).
Proof. intros s fail fresh now H. cbn [next]. rewrite H. reflexivity. Qed.

Lemma applied_is_filter : forall s oc t now,
  spec_ips oc t <> [] ->
  exists fi,
    analyze_file oc (Some t) = AApply (spec_ips oc t) fi /\
    let s1 := fst (fst (next s (OSighup (Some t) oc now))) in
    pend s1 = Some (spec_ips oc t) /\ conns s1 = conns s /\ io s1 = io s /\
    trk s1 = trk s /\ sel s1 = sel s.
Proof.
  intros s oc t now Hne. cbn [next analyze_file]. rewrite spec_ips_lines in *.
  pose proof (analyze_text_spec oc t) as H.
  destruct (analyze_text oc t) as [l fi|r].
  - destruct H as [Ha Hb]. subst l. exists fi. repeat split.
  - congruence.
Qed.

Lemma tick_applies_pending : forall s D fail fresh now,
  pend s = Some D ->
  let s1 := fst (fst (next s (OTick fail fresh now))) in
  let s' := fst (apply_changes D fail fresh s) in
  conns s1 = conns s' /\ io s1 = io s' /\ trk s1 = trk s' /\ sel s1 = sel s' /\ pend s1 = None.
Proof.
  intros s D fail fresh now H. cbn [next]. rewrite H.
  destruct (apply_changes D fail fresh s) as [s' att]. repeat split.
Qed.

Lemma survivors_identical : forall D fail fresh s,
  Inv s -> fresh_ok s (needed_ips (map l_lab (conns s)) D) fail fresh ->
  let s' := fst (apply_changes D fail fresh s) in
  exists added,
    conns s' = filter (keep D) (conns s) ++ added /\
    (forall c, In c (filter (keep D) (conns s)) ->
               io_get (l_id c) (io s') = io_get (l_id c) (io s)) /\
    (forall c, In c added -> ~ In (l_lab c) (map l_lab (conns s)) /\ ~ In (l_id c) (ids s)).
Proof.
  intros D fail fresh s HI Hf s'.
  destruct (apply_facts D fail fresh s (inv_ids s HI) (inv_trk_keys s HI) Hf)
    as [added [A1 [A2 [A3 [A4 [A5 [A6 [A7 [A8 [A9 [A10 A11]]]]]]]]]]].
  exists added. split; [exact A1|]. split; [exact A6|].
  intros c Hc. split.
  - assert (Hin : In (l_lab c) (map l_lab added)) by (apply in_map; exact Hc).
    rewrite A2 in Hin. apply filter_In in Hin. destruct Hin as [Hin _].
    apply needed_In in Hin. tauto.
  - destruct Hf as [_ [Hf2 _]]. intro Hin. apply (Hf2 (l_id c)); [|exact Hin].
    apply A4. apply in_map. exact Hc.
Qed.

Lemma removed_exactly : forall D fail fresh s,
  Inv s -> fresh_ok s (needed_ips (map l_lab (conns s)) D) fail fresh ->
  let s' := fst (apply_changes D fail fresh s) in
  (forall c, In c (conns s) -> keep D c = false ->
     ~ In (l_id c) (ids s') /\ io_get (l_id c) (io s') = None /\
     (forall seq now, trk_get seq now (trk s') <> Some (l_id c))) /\
  (forall seq now j, trk_get seq now (trk s) = Some j ->
     (forall c, In c (conns s) -> keep D c = false -> l_id c <> j) ->
     trk_get seq now (trk s') = Some j) /\
  (forall seq now, trk_get seq now (trk s) = None -> trk_get seq now (trk s') = None).
Proof.
  intros D fail fresh s HI Hf s'.
  destruct (apply_facts D fail fresh s (inv_ids s HI) (inv_trk_keys s HI) Hf)
    as [added [A1 [A2 [A3 [A4 [A5 [A6 [A7 [A8 [A9 [A10 A11]]]]]]]]]]].
  fold s' in A7, A8. split; [|split].
  - intros c Hc Hk.
    assert (Hr : In (l_id c) (rid s D)) by (apply rid_in; exists c; auto).
    destruct (A7 _ Hr) as [H1 H2]. split; [exact H2|]. split; [exact H1|].
    intros seq now. rewrite A8. destruct (trk_get seq now (trk s)) as [j|]; [|discriminate].
    destruct (mem j (rid s D)) eqn:E; [discriminate|].
    intro H. injection H as H. subst j. apply mem_In in Hr. congruence.
  - intros seq now j Hj Hn. rewrite A8, Hj.
    destruct (mem j (rid s D)) eqn:E; [|reflexivity].
    apply mem_In in E. apply rid_in in E. destruct E as [c [Hc [Hk Hid]]].
    exfalso. eapply Hn; eauto.
  - intros seq now Hn. rewrite A8, Hn. reflexivity.
Qed.

Lemma added_once : forall D fail fresh s,
  Inv s -> fresh_ok s (needed_ips (map l_lab (conns s)) D) fail fresh ->
  let s' := fst (apply_changes D fail fresh s) in
  exists added,
    conns s' = filter (keep D) (conns s) ++ added /\
    NoDup (map l_lab added) /\
    (forall a, In a (map l_lab added) <->
               In a D /\ ~ In a (map l_lab (conns s)) /\ ~ In a fail) /\
    map l_lab added = filter (fun a => negb (mem a fail)) (needed_ips (map l_lab (conns s)) D) /\
    (forall c, In c added -> l_ip c = l_lab c /\ exists tok, io_get (l_id c) (io s') = Some tok) /\
    snd (apply_changes D fail fresh s) = needed_ips (map l_lab (conns s)) D /\
    NoDup (snd (apply_changes D fail fresh s)).
Proof.
  intros D fail fresh s HI Hf s'.
  pose proof (apply_inv D fail fresh s HI Hf) as HI'. fold s' in HI'.
  destruct (apply_facts D fail fresh s (inv_ids s HI) (inv_trk_keys s HI) Hf)
    as [added [A1 [A2 [A3 [A4 [A5 [A6 [A7 [A8 [A9 [A10 A11]]]]]]]]]]].
  fold s' in A1. exists added. split; [exact A1|].
  split; [rewrite A2; apply NoDup_filter; apply needed_NoDup|].
  split.
  { intro a. rewrite A2. rewrite filter_In. rewrite needed_In. unfold notfail.
    destruct (mem a fail) eqn:E.
    - apply mem_In in E. split; [intros [_ H]; discriminate|tauto].
    - apply mem_nIn in E. tauto. }
  split; [exact A2|].
  split.
  { intros c Hc. split.
    - rewrite Forall_forall in A3. apply A3. exact Hc.
    - apply io_get_in. apply (inv_io_ids s' HI'). unfold ids. rewrite A1.
      rewrite map_app. apply in_or_app. right. apply in_map. exact Hc. }
  split; [exact A11|]. rewrite A11. apply needed_NoDup.
Qed.

Lemma nth_link_app : forall i l a c, nth_link i l = Some c -> nth_link i (l ++ a) = Some c.
Proof.
  intros i l a c. unfold nth_link. destruct (0 <=? i); [|discriminate].
  intro H. rewrite nth_error_app1; [exact H|]. apply nth_error_Some. congruence.
Qed.

Lemma forget_choice : forall D fail fresh s,
  Inv s -> fresh_ok s (needed_ips (map l_lab (conns s)) D) fail fresh ->
  let s' := fst (apply_changes D fail fresh s) in
  ((exists c, In c (conns s) /\ keep D c = false) -> sel s' = None) /\
  ((forall c, In c (conns s) -> keep D c = true) ->
     sel s' = sel s /\
     forall i c, nth_link i (conns s) = Some c -> nth_link i (conns s') = Some c).
Proof.
  intros D fail fresh s HI Hf s'.
  destruct (apply_facts D fail fresh s (inv_ids s HI) (inv_trk_keys s HI) Hf)
    as [added [A1 [A2 [A3 [A4 [A5 [A6 [A7 [A8 [A9 [A10 A11]]]]]]]]]]].
  fold s' in A1, A9. split.
  - intros [c [Hc Hk]]. rewrite A9.
    assert (Hr : In (l_id c) (rid s D)) by (apply rid_in; exists c; auto).
    destruct (rid s D); [destruct Hr|reflexivity].
  - intro Hall.
    assert (Hr : rid s D = []).
    { destruct (rid s D) as [|x r] eqn:E; [reflexivity|].
      assert (Hx : In x (rid s D)) by (rewrite E; left; reflexivity).
      apply rid_in in Hx. destruct Hx as [c [Hc [Hk _]]]. rewrite (Hall c Hc) in Hk. discriminate. }
    split; [rewrite A9, Hr; reflexivity|].
    intros i c Hn. rewrite A1. fold (kept s D). rewrite (rid_nil_kept s D Hr).
    apply nth_link_app. exact Hn.
Qed.

(** ---------------------------------------------------------------- the oracle premise is satisfiable *)
Fixpoint seqZ (a : Z) (n : nat) : list Z :=
  match n with O => [] | S k => a :: seqZ (a + 1) k end.
Lemma seqZ_ge : forall n a x, In x (seqZ a n) -> a <= x.
Proof.
  induction n as [|n IH]; intros a x H; simpl in H; [destruct H|].
  destruct H as [H|H]; [lia|]. apply IH in H. lia.
Qed.
Lemma seqZ_NoDup : forall n a, NoDup (seqZ a n).
Proof.
  induction n as [|n IH]; intro a; simpl; constructor; [|apply IH].
  intro H. apply seqZ_ge in H. lia.
Qed.
Lemma seqZ_length : forall n a, length (seqZ a n) = n.
Proof. induction n as [|n IH]; intro a; simpl; [reflexivity|]. rewrite IH. reflexivity. Qed.
Definition zmax (l : list Z) : Z := fold_right Z.max 0 l.
Lemma zmax_ge : forall l x, In x l -> x <= zmax l.
Proof.
  induction l as [|y t IH]; intros x H; simpl in *; [destruct H|].
  destruct H as [H|H]; [lia|]. apply IH in H. lia.
Qed.

Lemma filter_le : forall {A} (f : A -> bool) l, (length (filter f l) <= length l)%nat.
Proof.
  intros A f l. induction l as [|x t IH]; simpl; [lia|]. destruct (f x); simpl; lia.
Qed.

Lemma fresh_exists : forall s attempt fail, exists fresh, fresh_ok s attempt fail fresh.
Proof.
  intros s attempt fail.
  exists (map (fun id => (id, @nil Z)) (seqZ (zmax (ids s) + 1) (length attempt))).
  unfold fresh_ok. rewrite map_map. simpl. rewrite map_id. split; [apply seqZ_NoDup|]. split.
  - intros id Hin Hids. apply seqZ_ge in Hin. apply zmax_ge in Hids. lia.
  - rewrite map_length, seqZ_length. apply filter_le.
Qed.
