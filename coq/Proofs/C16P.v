(** C16P.v — the model's own traces satisfy the C16 monitor (simulation between the model's
    per-link state and what the monitor remembers), plus the history-level invariants. *)
From Coq Require Import Floats ZifyBool.
From Srtla Require Import Base Constants LinkCc LinkCcP Run_C16.
From Srtla Require FConstants.
Local Open Scope Z_scope.
Ltac Zify.zify_post_hook ::= Z.div_mod_to_equations.

Lemma nodupZ_NoDup l : nodupZ l = true <-> NoDup l.
Proof.
  induction l as [|x l IH]; cbn.
  - split; [constructor|reflexivity].
  - rewrite andb_true_iff, negb_true_iff, memZ_false, IH. split.
    + intros [H1 H2]. constructor; assumption.
    + intro H. inversion H; subst. split; assumption.
Qed.

(** ---- invariants along a history ---- *)
Lemma ctrl_all_from (P : link -> Prop) :
  P link_default -> (forall s now i, P s -> P (link_step s now i)) ->
  forall ops c, ctrl_all P c -> ctrl_all P (ctrl_from c ops).
Proof.
  intros Hd Hs. induction ops as [|[now inps] t IH]; intros c Hc; cbn; [exact Hc|].
  apply IH. apply ctrl_all_tick_all; auto.
Qed.

Lemma ctrl_all_after (P : link -> Prop) ops :
  P link_default -> (forall s now i, P s -> P (link_step s now i)) -> ctrl_all P (ctrl_after ops).
Proof. intros Hd Hs. apply ctrl_all_from; auto. intros k s []. Qed.

Lemma link_inv_after ops : ctrl_all link_inv (ctrl_after ops).
Proof. apply ctrl_all_after; [apply link_inv_default|intros; apply link_inv_step; assumption]. Qed.

(** ---- garbage collection: the tracked keys are exactly the present ids ---- *)
Lemma keys_tick_links now inps : forall c k,
  In k (map fst (tick_links c now inps)) <-> In k (map i_id inps) \/ In k (map fst c).
Proof.
  induction inps as [|i t IH]; intros c k; cbn; [tauto|].
  rewrite IH, In_keys_upsert. intuition.
Qed.

Lemma NoDup_keys_tick_links now inps : forall c,
  NoDup (map fst c) -> NoDup (map fst (tick_links c now inps)).
Proof.
  induction inps as [|i t IH]; intros c H; cbn; [exact H|].
  apply IH, NoDup_keys_upsert, H.
Qed.

Lemma keys_tick_all c now inps k :
  In k (map fst (tick_all c now inps)) <-> In k (map i_id inps).
Proof.
  unfold tick_all. rewrite keys_retain, filter_In, keys_tick_links, memZ_In. tauto.
Qed.

Lemma NoDup_keys_tick_all c now inps :
  NoDup (map fst c) -> NoDup (map fst (tick_all c now inps)).
Proof.
  intro H. unfold tick_all. rewrite keys_retain. apply NoDup_filter, NoDup_keys_tick_links, H.
Qed.

Lemma NoDup_keys_from ops : forall c, NoDup (map fst c) -> NoDup (map fst (ctrl_from c ops)).
Proof.
  induction ops as [|[now inps] t IH]; intros c H; cbn; [exact H|].
  apply IH, NoDup_keys_tick_all, H.
Qed.

Lemma keys_ok_tick_all c now inps :
  NoDup (map fst c) -> keys_ok (map fst (tick_all c now inps)) (map i_id inps) = true.
Proof.
  intro H. unfold keys_ok. rewrite !andb_true_iff, !forallb_forall. repeat split.
  - intros k Hk. apply memZ_In. apply keys_tick_all in Hk. exact Hk.
  - intros k Hk. apply memZ_In. apply keys_tick_all. exact Hk.
  - apply nodupZ_NoDup, NoDup_keys_tick_all, H.
Qed.

(** ---- with distinct ids, each present link makes exactly one step per tick ---- *)
Lemma tick_links_getd_notin now inps : forall c k,
  ~ In k (map i_id inps) -> getd link_default (tick_links c now inps) k = getd link_default c k.
Proof.
  induction inps as [|i t IH]; intros c k Hk; cbn; [reflexivity|].
  cbn in Hk. rewrite IH by tauto. apply getd_upsert_other. intro E. apply Hk. left. congruence.
Qed.

Lemma tick_links_getd_in now inps : forall c i,
  NoDup (map i_id inps) -> In i inps ->
  getd link_default (tick_links c now inps) (i_id i) = link_step (getd link_default c (i_id i)) now i.
Proof.
  induction inps as [|j t IH]; intros c i Hnd Hin; [contradiction|].
  cbn in Hnd. inversion Hnd as [|? ? Hj Hnd']; subst. cbn.
  destruct Hin as [->|Hin].
  - rewrite tick_links_getd_notin by exact Hj. apply getd_upsert_same.
  - rewrite IH by assumption. f_equal. apply getd_upsert_other.
    intro E. apply Hj. rewrite <- E. apply in_map. exact Hin.
Qed.

Lemma tick_all_getd_in c now inps i :
  NoDup (map i_id inps) -> In i inps ->
  getd link_default (tick_all c now inps) (i_id i) = link_step (getd link_default c (i_id i)) now i.
Proof.
  intros Hnd Hin. unfold tick_all. rewrite getd_retain by (apply in_map; exact Hin).
  apply tick_links_getd_in; assumption.
Qed.

(** ---- the shape of one link step ---- *)
Lemma link_step_shape s now i :
  let r1 := pre_tick_rtt s now i in
  let s' := link_step s now i in
  k_rtt s' = r1 /\
  ((rtt_invalid r1 = true /\
    k_core s' = mkCore Bootstrap Normal MIN_TARGET_BPS (c_fr_ticks (k_core s)) false /\
    k_latch s' = k_latch s)
   \/
   (rtt_invalid r1 = false /\
    (exists ns md fr, ns <> Bootstrap /\
       k_core s' = mkCore ns md (new_target (k_core s) ns md (observed_bps i)) fr true) /\
    k_latch s' = update_loss_ewma (k_latch s) (i_lewma i) now)).
Proof.
  cbv zeta. unfold link_step.
  set (s0 := mkLink _ _ _ _ _).
  split; [apply tick_rtt|].
  destruct (tick_core_shape s0 (observed_bps i) now (i_lewma i)) as [[Ei E]|[Ei (ns & md & fr & Hns & E & _)]].
  - left. split; [exact Ei|]. split; [exact E|].
    rewrite tick_latch. rewrite Ei. reflexivity.
  - right. split; [exact Ei|]. split; [exists ns, md, fr; split; [exact Hns|exact E]|].
    rewrite tick_latch. rewrite Ei. reflexivity.
Qed.

Lemma update_loss_ewma_ewma l e now : l_ewma (update_loss_ewma l e now) = e.
Proof.
  unfold update_loss_ewma.
  destruct (f_lt _ e); [destruct (_ =? 0); [reflexivity|destruct (_ <=? _); reflexivity]|].
  destruct (f_lt e _); reflexivity.
Qed.

(** no RTT sample in this tick: the smoothed RTT is untouched *)
Lemma pre_tick_rtt_no_sample s now i :
  rtt_sample_present (i_rtt i) = false -> pre_tick_rtt s now i = k_rtt s.
Proof.
  unfold rtt_sample_present, pre_tick_rtt, record_rtt. intro H.
  destruct (f_lt fzero (i_rtt i)); [|reflexivity].
  cbn [andb] in H. rewrite H. reflexivity.
Qed.

Lemma rtt_invalid_zero r : r_ewma r = fzero -> rtt_invalid r = true.
Proof. intro H. unfold rtt_invalid. rewrite H. reflexivity. Qed.

(** ---- the simulation relation between a link and what the monitor remembers of it ---- *)
Definition latch_rel (l : latch) (since : option Z) : Prop :=
  match since with
  | None => l_high_since l = 0 /\ f_lt FConstants.LOSS_DEGRADE_ENTER (l_ewma l) = false
  | Some t => f_lt FConstants.LOSS_DEGRADE_ENTER (l_ewma l) = true /\ 0 <= t <= l_high_since l
  end.

Record SimR (s : link) (m : mon) : Prop := mkR {
  R_inv : core_inv (k_core s);
  R_bad : m_bad m = 0%N;
  R_tgt : m_tgt m = c_target (k_core s);
  R_st : m_st m = state_code (c_state (k_core s));
  R_seeded : m_seeded m = c_seeded (k_core s);
  R_deg : m_deg m = l_degraded (k_latch s);
  R_rtt : m_rtt_seen m = false -> r_ewma (k_rtt s) = fzero;
  R_latch : latch_rel (k_latch s) (m_since m) }.

Lemma R_default : SimR link_default mon_default.
Proof.
  constructor; try reflexivity.
  - apply core_inv_default.
  - cbn. split; reflexivity.
Qed.

Lemma state_code_zero s : (state_code s =? 0) = true <-> s = Bootstrap.
Proof. destruct s; cbn; split; intro H; congruence. Qed.

Lemma first_code_ok a b c d e f g ca cb cc cd ce cf cg :
  a = true -> b = true -> c = true -> d = true -> e = true -> f = true -> g = true ->
  first_code [(a, ca); (b, cb); (c, cc); (d, cd); (e, ce); (f, cf); (g, cg)] = 0%N.
Proof. intros; subst; reflexivity. Qed.

(** latch clauses and the latch part of [SimR], for a tick that updates the loss average *)
Lemma latch_step l since now e :
  0 <= now -> latch_rel l since ->
  let l' := update_loss_ewma l e now in
  let high := f_lt FConstants.LOSS_DEGRADE_ENTER e in
  latch_rel l' (if high then (match since with Some t => Some t | None => Some now end) else None) /\
  (negb (l_degraded l') || l_degraded l ||
     (high && match since with Some t => 4000 <=? now - t | None => false end) = true) /\
  (l_degraded l' || negb (l_degraded l) || f_lt e FConstants.LOSS_DEGRADE_CLEAR = true).
Proof.
  intros Hnow Hrel. cbv zeta. unfold update_loss_ewma.
  destruct (f_lt FConstants.LOSS_DEGRADE_ENTER e) eqn:Eh.
  - destruct (l_high_since l =? 0) eqn:E0.
    + cbn [l_degraded l_ewma l_high_since latch_rel]. split; [|split].
      * destruct since as [t|]; cbn [latch_rel l_ewma l_high_since].
        -- destruct Hrel as [_ Ht]. split; [exact Eh|lia].
        -- split; [exact Eh|lia].
      * destruct (l_degraded l); reflexivity.
      * destruct (l_degraded l); reflexivity.
    + destruct since as [t|]; [|destruct Hrel as [H0 _]; lia].
      destruct Hrel as [_ Ht].
      destruct (LOSS_DEGRADE_SUSTAIN_MS <=? ssub now (l_high_since l)) eqn:Es;
        cbn [l_degraded l_ewma l_high_since latch_rel].
      * split; [split; [exact Eh|lia]|]. split.
        -- unfold ssub in Es. uconst. destruct (l_degraded l); cbn; [reflexivity|lia].
        -- reflexivity.
      * split; [split; [exact Eh|lia]|]. split; destruct (l_degraded l); reflexivity.
  - destruct (f_lt e FConstants.LOSS_DEGRADE_CLEAR) eqn:Ec; cbn [l_degraded l_ewma l_high_since latch_rel].
    + split; [split; [reflexivity|exact Eh]|]. split; [reflexivity|].
      destruct (l_degraded l); reflexivity.
    + split; [split; [reflexivity|exact Eh]|]. split; destruct (l_degraded l); reflexivity.
Qed.

(** the heart: one link step of the model, observed through its snapshot, keeps every clause *)
Lemma step_R s m now i :
  SimR s m -> 0 <= now -> rtt_stays_valid s now i = true ->
  SimR (link_step s now i) (mon_step m now i (lobs_of (link_step s now i))).
Proof.
  intros [Hinv Hbad Htgt Hst Hseed Hdeg Hrtt Hlatch] Hnow Hvalid.
  pose proof (core_inv_step s now i Hinv) as Hinv'.
  destruct Hinv as (Hrange & Hboot & Hnboot & Hfr).
  assert (Hsb : c_seeded (k_core s) = false -> c_state (k_core s) = Bootstrap).
  { intro Hf. destruct (cc_state_eqb (c_state (k_core s)) Bootstrap) eqn:E.
    - destruct (c_state (k_core s)); cbn in E; congruence.
    - rewrite Hnboot in Hf; [discriminate|]. intro Hc. rewrite Hc in E. discriminate. }
  pose proof (f64_to_u64_range (i_bps i)) as Hobs. fold (observed_bps i) in Hobs.
  destruct (link_step_shape s now i) as [Er Hshape]. cbv zeta in Er, Hshape.
  set (s' := link_step s now i) in *.
  assert (Hrtt' : m_rtt_seen m || rtt_sample_present (i_rtt i) = false -> r_ewma (k_rtt s') = fzero).
  { intro H. apply orb_false_iff in H. destruct H as [H1 H2].
    rewrite Er, pre_tick_rtt_no_sample by exact H2. apply Hrtt, H1. }
  unfold mon_step. rewrite Hbad. cbn [N.eqb].
  unfold mon_clauses, c_range, c_floor, c_rtt, c_lowered, c_growth, c_latch_on, c_latch_off,
         next_since, mon_high.
  cbn [lobs_of o_tgt o_st o_lewma o_deg snapshot_of s_target s_state s_loss_ewma s_degraded].
  rewrite Htgt, Hst, Hseed, Hdeg.
  destruct Hshape as [(Ei & Ec & El)|(Ei & (ns & md & fr & Hns & Ec) & El)].
  - (* the tick stayed in Bootstrap: by well-formedness the link was in Bootstrap before *)
    unfold rtt_stays_valid in Hvalid. rewrite Ei in Hvalid. cbn [negb orb] in Hvalid.
    rewrite orb_false_r in Hvalid.
    assert (Hb : c_state (k_core s) = Bootstrap) by (destruct (c_state (k_core s)); cbn in Hvalid; congruence).
    destruct (Hboot Hb) as [Ht Hs].
    rewrite Ec, El. cbn [c_target c_state c_seeded state_code].
    constructor; cbn [m_bad m_tgt m_st m_seeded m_deg m_rtt_seen m_since].
    + exact Hinv'.
    + apply first_code_ok.
      * uconst. lia.
      * rewrite Z.eqb_refl. apply orb_true_r.
      * rewrite Hs. reflexivity.
      * rewrite Ht. uconst. lia.
      * rewrite Hs. cbn [negb]. rewrite orb_true_r. reflexivity.
      * destruct (l_degraded (k_latch s)); reflexivity.
      * destruct (l_degraded (k_latch s)); reflexivity.
    + rewrite Ec. reflexivity.
    + rewrite Ec. reflexivity.
    + rewrite Ec. cbn [c_seeded]. rewrite Hs. reflexivity.
    + rewrite El. reflexivity.
    + exact Hrtt'.
    + rewrite El. unfold latch_rel in *. destruct (m_since m) as [t|].
      * destruct Hlatch as [Hh Ht']. rewrite Hh. split; auto.
      * destruct Hlatch as [H0 Hh]. rewrite Hh. split; auto.
  - (* a regular tick *)
    rewrite Ec, El. cbn [c_target c_state c_seeded]. rewrite update_loss_ewma_ewma.
    assert (Hns0 : (state_code ns =? 0) = false).
    { destruct (state_code ns =? 0) eqn:E; [|reflexivity]. apply state_code_zero in E. contradiction. }
    pose proof (new_target_range (k_core s) ns md (observed_bps i)) as Hr'.
    destruct (latch_step (k_latch s) (m_since m) now (i_lewma i) Hnow Hlatch)
      as (HL1 & HL2 & HL3). cbv zeta in HL1, HL2, HL3.
    assert (Hseen : m_rtt_seen m || rtt_sample_present (i_rtt i) = true).
    { destruct (m_rtt_seen m || rtt_sample_present (i_rtt i)) eqn:E; [reflexivity|].
      specialize (Hrtt' eq_refl). rewrite Er in Hrtt'. apply rtt_invalid_zero in Hrtt'. congruence. }
    constructor; cbn [m_bad m_tgt m_st m_seeded m_deg m_rtt_seen m_since].
    + exact Hinv'.
    + apply first_code_ok.
      * uconst. lia.
      * rewrite Hseen. reflexivity.
      * rewrite Hns0. apply orb_true_r.
      * (* lowered only by back-off or drain entry *)
        destruct (c_seeded (k_core s)) eqn:Hsd.
        -- destruct (Z_lt_dec (new_target (k_core s) ns md (observed_bps i)) (c_target (k_core s))) as [Hlt|Hge].
           ++ destruct (new_target_lowered (k_core s) ns md (observed_bps i) Hsd Hrange (proj1 Hobs) Hlt)
                as [(-> & B1 & B2 & B3)|(-> & Hnd & B1)].
              ** cbn [state_code]. uconst. lia.
              ** cbn [state_code].
                 assert (Hd : (state_code (c_state (k_core s)) =? 4) = false)
                   by (destruct (c_state (k_core s)); cbn; congruence).
                 rewrite Hd. uconst. lia.
           ++ lia.
        -- destruct (Hboot (Hsb eq_refl)) as [Ht _]. rewrite Ht. lia.
      * (* growth *)
        destruct (c_seeded (k_core s)) eqn:Hsd; [|cbn [negb]; rewrite orb_true_r; reflexivity].
        destruct (new_target_growth (k_core s) ns md (observed_bps i) Hsd Hrange) as [G1 G2].
        cbn [negb orb]. lia.
      * exact HL2.
      * exact HL3.
    + rewrite Ec. reflexivity.
    + rewrite Ec. reflexivity.
    + rewrite Ec. cbn [c_seeded]. rewrite Hns0. apply orb_true_r.
    + rewrite El. reflexivity.
    + exact Hrtt'.
    + rewrite El. exact HL1.
Qed.

(** ---- lifting the relation to the two association lists ---- *)
Definition MapRel (c : ctrl) (mc : mctrl) : Prop :=
  Forall2 (fun x y => fst x = fst y /\ SimR (snd x) (snd y)) c mc.

Lemma MapRel_getd c mc k : MapRel c mc -> SimR (getd link_default c k) (getd mon_default mc k).
Proof.
  unfold getd. induction 1 as [|[k1 s1] [k2 m2] c mc [E HR] _ IH]; cbn; [apply R_default|].
  cbn in E, HR. subst k2. destruct (k =? k1); [exact HR|exact IH].
Qed.

Lemma MapRel_upsert c mc k s m : MapRel c mc -> SimR s m -> MapRel (upsert c k s) (upsert mc k m).
Proof.
  intros H HR. induction H as [|[k1 s1] [k2 m2] c mc [E HR1] Hrest IH]; cbn.
  - constructor; [split; [reflexivity|exact HR]|constructor].
  - cbn in E, HR1. subst k2. destruct (k =? k1).
    + constructor; [split; [reflexivity|exact HR]|exact Hrest].
    + constructor; [split; [reflexivity|exact HR1]|exact IH].
Qed.

Lemma MapRel_retain c mc ids : MapRel c mc -> MapRel (retain c ids) (retain mc ids).
Proof.
  unfold retain. induction 1 as [|[k1 s1] [k2 m2] c mc [E HR1] _ IH]; cbn; [constructor|].
  cbn in E, HR1. subst k2. destruct (memZ k1 ids); [constructor; [split; [reflexivity|exact HR1]|exact IH]|exact IH].
Qed.

Lemma MapRel_bad c mc : MapRel c mc -> first_bad_mon mc = 0%N.
Proof.
  induction 1 as [|[k1 s1] [k2 m2] c mc [E HR1] _ IH]; cbn; [reflexivity|].
  cbn in HR1. rewrite (R_bad _ _ HR1). cbn. exact IH.
Qed.

Lemma combine_map_r {A B} (f : A -> B) (l : list A) : combine l (map f l) = map (fun x => (x, f x)) l.
Proof. induction l; cbn; [reflexivity|f_equal; assumption]. Qed.

Lemma MapRel_links now inps : forall c mc,
  0 <= now -> NoDup (map i_id inps) -> MapRel c mc ->
  (forall i, In i inps -> rtt_stays_valid (getd link_default c (i_id i)) now i = true) ->
  MapRel (tick_links c now inps)
         (mon_links mc now (map (fun i => (i, lobs_of (link_step (getd link_default c (i_id i)) now i))) inps)).
Proof.
  induction inps as [|j t IH]; intros c mc Hnow Hnd Hrel Hv; cbn; [exact Hrel|].
  cbn in Hnd. inversion Hnd as [|? ? Hj Hnd']; subst.
  set (sj := link_step (getd link_default c (i_id j)) now j).
  assert (Hext : map (fun i => (i, lobs_of (link_step (getd link_default c (i_id i)) now i))) t =
                 map (fun i => (i, lobs_of (link_step (getd link_default (upsert c (i_id j) sj) (i_id i)) now i))) t).
  { apply map_ext_in. intros i Hi. rewrite getd_upsert_other; [reflexivity|].
    intro E. apply Hj. rewrite <- E. apply in_map. exact Hi. }
  rewrite Hext. apply IH; [exact Hnow|exact Hnd'| |].
  - apply MapRel_upsert; [exact Hrel|]. apply step_R; [apply MapRel_getd; exact Hrel|exact Hnow|].
    apply Hv. left. reflexivity.
  - intros i Hi. rewrite getd_upsert_other.
    + apply Hv. right. exact Hi.
    + intro E. apply Hj. rewrite <- E. apply in_map. exact Hi.
Qed.

(** one tick of the model, fed to the monitor, leaves it silent and keeps the relation *)
Lemma mon_tick_ok c mc now inps :
  MapRel c mc -> NoDup (map fst c) -> tick_wf c now inps = true ->
  let c' := tick_all c now inps in
  exists mc', mon_tick (mc, 0%N) now inps (tobs_of c' inps) = (mc', 0%N) /\ MapRel c' mc'.
Proof.
  intros Hrel Hndc Hwf. cbv zeta.
  unfold tick_wf in Hwf. rewrite !andb_true_iff in Hwf. destruct Hwf as [[[Hn0 _] Hnd] Hall].
  apply nodupZ_NoDup in Hnd. rewrite forallb_forall in Hall.
  assert (Hnow : 0 <= now) by lia.
  unfold mon_tick. cbn [t_links t_keys tobs_of].
  rewrite map_length, Nat.eqb_refl. cbn [negb].
  rewrite keys_ok_tick_all by exact Hndc. cbn [negb].
  assert (Hl : map (fun i => lobs_of (getd link_default (tick_all c now inps) (i_id i))) inps =
               map (fun i => lobs_of (link_step (getd link_default c (i_id i)) now i)) inps).
  { apply map_ext_in. intros i Hi. rewrite tick_all_getd_in by assumption. reflexivity. }
  assert (Hm : MapRel (tick_all c now inps)
     (retain (mon_links mc now (combine inps (map (fun i => lobs_of (getd link_default (tick_all c now inps) (i_id i))) inps)))
             (map i_id inps))).
  { rewrite Hl, combine_map_r. unfold tick_all. apply MapRel_retain.
    apply MapRel_links; try assumption.
    intros i Hi. specialize (Hall i Hi). apply andb_true_iff in Hall. apply Hall. }
  eexists. split; [|exact Hm].
  cbn [N.eqb]. rewrite (MapRel_bad _ _ Hm). reflexivity.
Qed.

Lemma mon_run_ok ops : forall c mc,
  MapRel c mc -> NoDup (map fst c) -> wf_from c ops = true ->
  snd (mon_run (mc, 0%N) (run_from c ops)) = 0%N.
Proof.
  induction ops as [|[now inps] t IH]; intros c mc Hrel Hnd Hwf; [reflexivity|].
  cbn [run_from mon_run]. cbv zeta.
  cbn [wf_from] in Hwf. apply andb_true_iff in Hwf. destruct Hwf as [Hw1 Hw2].
  destruct (mon_tick_ok c mc now inps Hrel Hnd Hw1) as (mc' & E & Hrel').
  cbv zeta in E. rewrite E. apply IH; [exact Hrel'|apply NoDup_keys_tick_all; exact Hnd|exact Hw2].
Qed.

(** headline: every well-formed history of the model satisfies the monitor *)
Theorem model_satisfies_monitor ops : wf ops = true -> ok_C16 (run ops) = true.
Proof.
  intro H. unfold ok_C16, mon_verdict, run.
  pose proof (mon_run_ok ops [] [] (Forall2_nil _) (NoDup_nil _) H) as E.
  unfold mctrl in *. rewrite E. reflexivity.
Qed.

(** ---- step-level statements used by Props/C16.v ---- *)
Lemma unseeded_bootstrap c : core_inv c -> c_seeded c = false -> c_state c = Bootstrap.
Proof.
  intros (_ & _ & Hn & _) Hf. destruct (cc_state_eqb (c_state c) Bootstrap) eqn:E.
  - destruct (c_state c); cbn in E; congruence.
  - rewrite Hn in Hf; [discriminate|]. intro Hc. rewrite Hc in E. discriminate.
Qed.

Lemma floor_until_rtt_step s now i :
  r_ewma (k_rtt s) = fzero -> rtt_sample_present (i_rtt i) = false ->
  let s' := link_step s now i in
  r_ewma (k_rtt s') = fzero /\ c_state (k_core s') = Bootstrap /\ c_target (k_core s') = MIN_TARGET_BPS.
Proof.
  intros H0 Hp. cbv zeta.
  destruct (link_step_shape s now i) as [Er Hshape]. cbv zeta in Er, Hshape.
  rewrite pre_tick_rtt_no_sample in Er, Hshape by exact Hp.
  split; [rewrite Er; exact H0|].
  destruct Hshape as [(_ & Ec & _)|(Ei & _)].
  - rewrite Ec. split; reflexivity.
  - rewrite (rtt_invalid_zero _ H0) in Ei. discriminate.
Qed.

Lemma bootstrap_floor s : core_inv (k_core s) -> c_state (k_core s) = Bootstrap -> c_target (k_core s) = MIN_TARGET_BPS.
Proof. intros (_ & Hb & _) H. apply Hb, H. Qed.

Lemma seeded_iff s : core_inv (k_core s) -> (c_seeded (k_core s) = true <-> c_state (k_core s) <> Bootstrap).
Proof.
  intros (_ & Hb & Hn & _). split.
  - intros Hs Hc. destruct (Hb Hc) as [_ Hf]. congruence.
  - exact Hn.
Qed.

Lemma lowered_only_by s now i :
  core_inv (k_core s) ->
  let s' := link_step s now i in
  let t := c_target (k_core s) in let t' := c_target (k_core s') in let obs := observed_bps i in
  t' < t ->
  (c_state (k_core s') = BackingOff /\ t * 850 / 1000 <= t' /\ Z.min obs t <= t' /\
     t' <= Z.max MIN_TARGET_BPS (Z.max (t * 850 / 1000) (Z.min obs t))) \/
  (c_state (k_core s') = Drain /\ c_state (k_core s) <> Drain /\ t' = Z.max MIN_TARGET_BPS (t * 750 / 1000)) \/
  (c_state (k_core s') = Bootstrap /\ c_state (k_core s) <> Bootstrap /\
     rtt_invalid (pre_tick_rtt s now i) = true).
Proof.
  intros Hinv. cbv zeta. intro Hlt.
  pose proof Hinv as (Hrange & Hboot & Hnboot & _).
  pose proof (f64_to_u64_range (i_bps i)) as Hobs. fold (observed_bps i) in Hobs.
  destruct (link_step_shape s now i) as [_ Hshape]. cbv zeta in Hshape.
  destruct Hshape as [(Ei & Ec & _)|(_ & (ns & md & fr & Hns & Ec) & _)]; rewrite Ec in *; cbn [c_target c_state] in *.
  - right. right. split; [reflexivity|]. split; [|exact Ei].
    intro Hb. destruct (Hboot Hb) as [Ht _]. lia.
  - destruct (Bool.bool_dec (c_seeded (k_core s)) true) as [Hsd|Hsd]; [|apply not_true_is_false in Hsd].
    + destruct (new_target_lowered (k_core s) ns md (observed_bps i) Hsd Hrange (proj1 Hobs) Hlt)
        as [(-> & B)|(-> & B)]; [left|right; left]; (split; [reflexivity|exact B]).
    + exfalso. pose proof (unseeded_bootstrap _ Hinv Hsd) as Hb.
      destruct (Hboot Hb) as [Ht _].
      pose proof (new_target_range (k_core s) ns md (observed_bps i)). lia.
Qed.

Lemma lowered_only_by_wf s now i :
  core_inv (k_core s) -> rtt_stays_valid s now i = true ->
  let s' := link_step s now i in
  let t := c_target (k_core s) in let t' := c_target (k_core s') in let obs := observed_bps i in
  t' < t ->
  (c_state (k_core s') = BackingOff /\ t * 850 / 1000 <= t' /\ Z.min obs t <= t' /\
     t' <= Z.max MIN_TARGET_BPS (Z.max (t * 850 / 1000) (Z.min obs t))) \/
  (c_state (k_core s') = Drain /\ c_state (k_core s) <> Drain /\ t' = Z.max MIN_TARGET_BPS (t * 750 / 1000)).
Proof.
  intros Hinv Hv. cbv zeta. intro Hlt.
  destruct (lowered_only_by s now i Hinv Hlt) as [H|[H|(_ & Hnb & Ei)]]; [left; exact H|right; exact H|].
  exfalso. unfold rtt_stays_valid in Hv. rewrite Ei in Hv. cbn in Hv. rewrite orb_false_r in Hv.
  apply Hnb. destruct (c_state (k_core s)); cbn in Hv; congruence.
Qed.

Lemma backoff_honest s now i :
  core_inv (k_core s) -> c_seeded (k_core s) = true ->
  let s' := link_step s now i in
  let t := c_target (k_core s) in let t' := c_target (k_core s') in
  c_state (k_core s') = BackingOff ->
  t' <= t /\ Z.min (observed_bps i) t <= t' /\ t * 850 / 1000 <= t'.
Proof.
  intros (Hrange & _) Hsd. cbv zeta. intro Hst.
  destruct (link_step_shape s now i) as [_ Hshape]. cbv zeta in Hshape.
  destruct Hshape as [(_ & Ec & _)|(_ & (ns & md & fr & Hns & Ec) & _)]; rewrite Ec in *; cbn [c_target c_state] in *.
  - discriminate.
  - subst ns. apply new_target_backoff; assumption.
Qed.

Lemma growth_bound s now i :
  core_inv (k_core s) -> c_seeded (k_core s) = true ->
  let s' := link_step s now i in
  let t := c_target (k_core s) in let t' := c_target (k_core s') in
  t' * 1000 <= t * 1060 /\ (t < t' -> t' <= 2 * observed_bps i).
Proof.
  intros (Hrange & _) Hsd. cbv zeta.
  destruct (link_step_shape s now i) as [_ Hshape]. cbv zeta in Hshape.
  destruct Hshape as [(_ & Ec & _)|(_ & (ns & md & fr & Hns & Ec) & _)]; rewrite Ec; cbn [c_target].
  - uconst. lia.
  - apply new_target_growth; assumption.
Qed.

(** [loss_high_since_ms <> 0] always means the average is above the entry threshold *)
Definition latch_inv (l : latch) : Prop :=
  l_high_since l <> 0 -> f_lt FConstants.LOSS_DEGRADE_ENTER (l_ewma l) = true.

Lemma latch_inv_update l e now : latch_inv (update_loss_ewma l e now).
Proof.
  unfold latch_inv, update_loss_ewma.
  destruct (f_lt FConstants.LOSS_DEGRADE_ENTER e) eqn:Eh.
  - destruct (_ =? 0); [intros _; exact Eh|]. destruct (_ <=? _); intros _; exact Eh.
  - destruct (f_lt e _); cbn; intro H; contradiction.
Qed.

Lemma latch_inv_step s now i : latch_inv (k_latch s) -> latch_inv (k_latch (link_step s now i)).
Proof.
  intro H. destruct (link_step_shape s now i) as [_ Hshape]. cbv zeta in Hshape.
  destruct Hshape as [(_ & _ & El)|(_ & _ & El)]; rewrite El; [exact H|apply latch_inv_update].
Qed.

Lemma loss_latch_step s now i :
  let s' := link_step s now i in
  let l := k_latch s in let l' := k_latch s' in
  (l_degraded l = false -> l_degraded l' = true ->
     f_lt FConstants.LOSS_DEGRADE_ENTER (i_lewma i) = true /\ l_high_since l <> 0 /\
     LOSS_DEGRADE_SUSTAIN_MS <= now - l_high_since l) /\
  (l_degraded l = true -> l_degraded l' = false ->
     f_lt (i_lewma i) FConstants.LOSS_DEGRADE_CLEAR = true) /\
  (l_high_since l' = l_high_since l \/ l_high_since l' = 0 \/ (l_high_since l = 0 /\ l_high_since l' = now)).
Proof.
  cbv zeta. destruct (link_step_shape s now i) as [_ Hshape]. cbv zeta in Hshape.
  destruct Hshape as [(_ & _ & El)|(_ & _ & El)]; rewrite El.
  - split; [intros; congruence|]. split; [intros; congruence|left; reflexivity].
  - unfold update_loss_ewma.
    destruct (f_lt FConstants.LOSS_DEGRADE_ENTER (i_lewma i)) eqn:Eh.
    + destruct (l_high_since (k_latch s) =? 0) eqn:E0; cbn [l_degraded l_high_since].
      * split; [intros; congruence|]. split; [intros; congruence|]. right; right. split; [lia|reflexivity].
      * destruct (LOSS_DEGRADE_SUSTAIN_MS <=? ssub now (l_high_since (k_latch s))) eqn:Es; cbn [l_degraded l_high_since].
        -- split; [intros _ _; split; [reflexivity|split; [lia|unfold ssub in Es; uconst; lia]]|].
           split; [intros; congruence|left; reflexivity].
        -- split; [intros; congruence|]. split; [intros; congruence|left; reflexivity].
    + destruct (f_lt (i_lewma i) FConstants.LOSS_DEGRADE_CLEAR) eqn:Ec; cbn [l_degraded l_high_since].
      * split; [intros; congruence|]. split; [intros; reflexivity|right; left; reflexivity].
      * split; [intros; congruence|]. split; [intros; congruence|right; left; reflexivity].
Qed.

(** everything the controller holds after any history satisfies the link invariants *)
Definition full_inv (s : link) : Prop := link_inv s /\ latch_inv (k_latch s).

Lemma full_inv_after ops : ctrl_all full_inv (ctrl_after ops).
Proof.
  apply ctrl_all_after.
  - split; [apply link_inv_default|]. intro H. cbn in H. contradiction.
  - intros s now i [H1 H2]. split; [apply link_inv_step, H1|apply latch_inv_step, H2].
Qed.
