(** Run_C14.v — case type, model runner, monitor and [check_case] for C14
    "Keepalives flow on every live uplink and RTT comes only from echoes".

    A case = link ids, creation time, op list and, per op, what the harness read from the
    REAL code (handle_housekeeping / handle_uplink_packet over loopback sockets under the
    virtual clock).  [check_case] = bit0 (model trace <> implementation trace)
                                  + bit1 (the monitor — the property text — fails on the
                                          implementation's own trace)
                                  + 4 * (clause + 256 * (1-based step)).
    No proof file is imported here. *)
From Coq Require Export Floats.
From Srtla Require Import Base Constants FConstants Wire WireSpec.
From Srtla Require Export Rtt Keepalive.
Local Open Scope Z_scope.

(** ---- bit-exact float equality (NaN = NaN, +0 <> -0) ---- *)
Definition sf_eqb (a b : spec_float) : bool :=
  match a, b with
  | S754_zero s, S754_zero s' => Bool.eqb s s'
  | S754_infinity s, S754_infinity s' => Bool.eqb s s'
  | S754_nan, S754_nan => true
  | S754_finite s m e, S754_finite s' m' e' => Bool.eqb s s' && Pos.eqb m m' && Z.eqb e e'
  | _, _ => false
  end.
Definition feqb (a b : float) : bool := sf_eqb (Prim2SF a) (Prim2SF b).
Definition flist_eqb := list_eqb feqb.

(** ---- observations ---- *)
(** the integer / boolean part of a link, plus get_smooth_rtt_ms() *)
Record lobs := {
  o_connected : bool; o_last_recv : option Z; o_last_ka : option Z; o_proof : Z; o_timeout : Z;
  o_estab : Z; o_grace : Z; o_attempt : Z; o_fail : Z;
  o_waiting : bool; o_ka_sent_ms : Z; o_last_meas : Z; o_kinit : bool; o_srtt : float
}.

Definition lobs_of (l : link) : lobs :=
  let r := l_rtt l in
  {| o_connected := l_connected l; o_last_recv := l_last_recv l; o_last_ka := l_last_ka l;
     o_proof := l_proof l; o_timeout := l_timeout l; o_estab := l_estab l; o_grace := l_grace l;
     o_attempt := l_attempt l; o_fail := l_fail l; o_waiting := r_waiting r;
     o_ka_sent_ms := r_ka_sent_ms r; o_last_meas := r_last_meas r; o_kinit := kinit (r_k r);
     o_srtt := get_smooth_rtt_ms l |}.

(** Kalman state [x; v; p0; p1; p2; p3] and the other tracker floats
    [jitter; prev; avg_delta; min; min_fast; min_slow; masd; estimated] *)
Definition kobs_of (l : link) : list float :=
  let k := r_k (l_rtt l) in [kx k; kv k; kp0 k; kp1 k; kp2 k; kp3 k].
Definition fobs_of (l : link) : list float :=
  let r := l_rtt l in
  [r_jitter r; r_prev r; ev (r_avgd r); r_min r; r_min_fast r; r_min_slow r; r_masd r; r_est r].

(** what the monitor needs of a link as it was just before a tick *)
Record pobs := { p_connected : bool; p_last_recv : option Z; p_timeout : Z;
                 p_last_meas : Z; p_kinit : bool; p_srtt : float }.
Definition pobs_of (l : link) : pobs :=
  {| p_connected := l_connected l; p_last_recv := l_last_recv l; p_timeout := l_timeout l;
     p_last_meas := r_last_meas (l_rtt l); p_kinit := kinit (r_k (l_rtt l));
     p_srtt := get_smooth_rtt_ms l |}.
Record tobs := { tb_pre : pobs; tb_post : lobs; tb_frames : list frame }.
Record dump := { d_l : lobs; d_k : list float; d_f : list float;
                 d_fastw : list float; d_sloww : list float; d_filt : list float }.

Inductive obs :=
| BTick (per : list tobs)
| BPkt (pre : lobs) (prek : list float) (post : lobs) (postk postf : list float)
| BMark (post : lobs)
| BEnd (ds : list dump)
| BNone.                                  (* op addressed a link that does not exist *)

Definition dump_of (l : link) : dump :=
  let r := l_rtt l in
  {| d_l := lobs_of l; d_k := kobs_of l; d_f := fobs_of l;
     d_fastw := r_fastw r; d_sloww := r_sloww r; d_filt := r_filt r |}.

(** ---- runner ---- *)
Definition obs_step (s : state) (o : op) : obs :=
  match o with
  | OTick now ts rc =>
    BTick (map (fun p => {| tb_pre := pobs_of (fst p); tb_post := lobs_of (snd (snd p));
                            tb_frames := fst (snd p) |})
               (combine s (tick_links s ts rc now)))
  | OPkt i b now =>
    match nth_error s i with
    | Some l => let l' := pkt_link l b now in
                BPkt (lobs_of l) (kobs_of l) (lobs_of l') (kobs_of l') (fobs_of l')
    | None => BNone
    end
  | OMark i =>
    match nth_error s i with Some l => BMark (lobs_of (mark_for_recovery l)) | None => BNone end
  | OSetTimeout _ _ => BNone
  | OEnd => BEnd (map dump_of s)
  end.

Fixpoint run_from (s : state) (ops : list op) : list obs :=
  match ops with
  | [] => []
  | o :: t => obs_step s o :: run_from (step s o) t
  end.
Definition run (ids : list Z) (t0 : Z) (ops : list op) : list obs := run_from (init ids t0) ops.

(** ---- equality of traces ---- *)
Definition lobs_eqb (a b : lobs) : bool :=
  Bool.eqb (o_connected a) (o_connected b) && ozeqb (o_last_recv a) (o_last_recv b) &&
  ozeqb (o_last_ka a) (o_last_ka b) && (o_proof a =? o_proof b) && (o_timeout a =? o_timeout b) &&
  (o_estab a =? o_estab b) && (o_grace a =? o_grace b) && (o_attempt a =? o_attempt b) &&
  (o_fail a =? o_fail b) && Bool.eqb (o_waiting a) (o_waiting b) &&
  (o_ka_sent_ms a =? o_ka_sent_ms b) && (o_last_meas a =? o_last_meas b) &&
  Bool.eqb (o_kinit a) (o_kinit b) && feqb (o_srtt a) (o_srtt b).
Definition frame_eqb (a b : frame) : bool :=
  match a, b with
  | FBytes x, FBytes y => zlist_eqb x y
  | FLong n x, FLong m y => (n =? m) && zlist_eqb x y
  | _, _ => false
  end.
Definition pobs_eqb (a b : pobs) : bool :=
  Bool.eqb (p_connected a) (p_connected b) && ozeqb (p_last_recv a) (p_last_recv b) &&
  (p_timeout a =? p_timeout b) && (p_last_meas a =? p_last_meas b) &&
  Bool.eqb (p_kinit a) (p_kinit b) && feqb (p_srtt a) (p_srtt b).
Definition tobs_eqb (a b : tobs) : bool :=
  pobs_eqb (tb_pre a) (tb_pre b) && lobs_eqb (tb_post a) (tb_post b) &&
  list_eqb frame_eqb (tb_frames a) (tb_frames b).
Definition dump_eqb (a b : dump) : bool :=
  lobs_eqb (d_l a) (d_l b) && flist_eqb (d_k a) (d_k b) && flist_eqb (d_f a) (d_f b) &&
  flist_eqb (d_fastw a) (d_fastw b) && flist_eqb (d_sloww a) (d_sloww b) &&
  flist_eqb (d_filt a) (d_filt b).
Definition obs_eqb (a b : obs) : bool :=
  match a, b with
  | BTick x, BTick y => list_eqb tobs_eqb x y
  | BPkt a1 a2 a3 a4 a5, BPkt b1 b2 b3 b4 b5 =>
    lobs_eqb a1 b1 && flist_eqb a2 b2 && lobs_eqb a3 b3 && flist_eqb a4 b4 && flist_eqb a5 b5
  | BMark x, BMark y => lobs_eqb x y
  | BEnd x, BEnd y => list_eqb dump_eqb x y
  | BNone, BNone => true
  | _, _ => false
  end.

(** ---- the monitor: the property text over an observed trace ------------------------- *)
(** Clause numbers (reported as [detail]):
      1 cadence   — on-schedule, live-at-both-ticks: time since the previous keepalive on the
                    link is at most two housekeeping periods
      2 frame     — every keepalive-type frame captured at a tick is the 38-byte extended
                    frame: bytes 0..10 = standard keepalive with the tick's timestamp,
                    telemetry = the link's window / in-flight / NAK count / rate at that tick
      3 sampling  — the RTT estimator moves only on an uplink datagram that is a keepalive
                    echo (type, >= 10 bytes) arriving while a probe is outstanding with
                    0 < now - echoed timestamp <= 10 s; a tick never takes a sample
      4 sign      — the smoothed RTT is never negative or NaN
      5 finite    — the smoothed RTT is never infinite *)
Record mlink := { m_last : option Z;        (* time of the last keepalive seen on the link *)
                  m_prev_live : option Z }. (* time of the previous tick, if live at it *)
Definition m0 : mlink := {| m_last := None; m_prev_live := None |}.
Definition mstate := list mlink.

Definition srtt_signed_ok (x : float) : bool := negb (f_is_nan x) && (0 <=? x)%float.
Definition srtt_finite_ok (x : float) : bool := negb (f_is_inf x).
Definition srtt_code (x : float) : N :=
  if negb (srtt_signed_ok x) then 4%N else if negb (srtt_finite_ok x) then 5%N else 0%N.
Definition lobs_code (o : lobs) : N := srtt_code (o_srtt o).

Definition first_code (a b : N) : N := if (a =? 0)%N then b else a.

(** "connected and not timed out", from the raw fields read before the tick *)
Definition live_pre (o : pobs) (now : Z) : bool :=
  p_connected o &&
  match p_last_recv o with None => true | Some lr => ssub now lr <? p_timeout o end.

Definition frame_is_ka (f : frame) : bool :=
  match f with
  | FBytes b => ozeqb (spec_type b) (Some SRTLA_TYPE_KEEPALIVE)
  | FLong _ h => ozeqb (spec_type h) (Some SRTLA_TYPE_KEEPALIVE)
  end.

Definition frame_ok (now : Z) (t : tele) (f : frame) : bool :=
  if negb (frame_is_ka f) then true else
  match f with
  | FLong _ _ => false
  | FBytes b =>
    (blen b =? 38) && zlist_eqb (firstn 10 b) (create_keepalive_packet now) &&
    match extract_keepalive_conn_info b with
    | Ok (Some [_; w; inf; _; nak; br]) =>
      (w =? t_window t) && (inf =? t_inflight t) && (nak =? of_i32 (t_nak t)) &&
      (br =? f_as_u32 (t_bps t / F_EIGHT)%float)
    | _ => false
    end
  end.

Definition tick_nosample (pre : pobs) (post : lobs) : bool :=
  ((o_last_meas post =? p_last_meas pre) || (o_last_meas post =? 0)) &&
  (Bool.eqb (o_kinit post) (p_kinit pre) || negb (o_kinit post)).

Definition mon_tick_link (D bound now : Z) (m : mlink) (tb : tobs) (t : tele) : N * mlink :=
  let pre := tb_pre tb in
  let live := live_pre pre now in
  let c1 := match m_prev_live m with
            | Some t1 =>
              if live && (now - t1 <=? D) then
                match m_last m with Some k => if now - k <=? bound then 0%N else 1%N | None => 1%N end
              else 0%N
            | None => 0%N
            end in
  let c2 := if forallb (frame_ok now t) (tb_frames tb) then 0%N else 2%N in
  let c3 := if tick_nosample pre (tb_post tb) then 0%N else 3%N in
  let c45 := first_code (srtt_code (p_srtt pre)) (lobs_code (tb_post tb)) in
  let seen := existsb frame_is_ka (tb_frames tb) in
  (first_code c1 (first_code c2 (first_code c3 c45)),
   {| m_last := if seen then Some now else m_last m;
      m_prev_live := if live then Some now else None |}).

Fixpoint mon_tick (D bound now : Z) (ms : mstate) (per : list tobs) (ts : list tele)
  : N * mstate :=
  match per with
  | [] => (0%N, [])
  | tb :: per' =>
    let '(c, m') := mon_tick_link D bound now (hd m0 ms) tb (hd tele0 ts) in
    let '(c', ms') := mon_tick D bound now (tl ms) per' (tl ts) in
    (first_code c c', m' :: ms')
  end.

(** did the estimator move between two reads of the same link *)
Definition sample_taken (pre : lobs) (prek : list float) (post : lobs) (postk : list float) : bool :=
  negb ((o_last_meas pre =? o_last_meas post) && Bool.eqb (o_kinit pre) (o_kinit post) &&
        flist_eqb prek postk).

Definition echo_ok (pre : lobs) (b : list Z) (now : Z) : bool :=
  o_waiting pre &&
  match spec_ka_ts b with
  | Some ts => (0 <? now - ts) && (now - ts <=? 10000)
  | None => false
  end.

Definition mon_step (D bound : Z) (ms : mstate) (o : op) (b : obs) : N * mstate :=
  match o, b with
  | OTick now ts _, BTick per => mon_tick D bound now ms per ts
  | OPkt _ bytes now, BPkt pre prek post postk _ =>
    (* ... and the echo that yields a sample closes the probe: one probe, at most one sample *)
    let c3 := if sample_taken pre prek post postk && (negb (echo_ok pre bytes now) || o_waiting post) then 3%N else 0%N in
    (first_code c3 (first_code (lobs_code pre) (lobs_code post)), ms)
  | OMark _, BMark post =>
    (* a soft reset cancels the outstanding probe: "while a probe is outstanding" is judged since the
       link's last reset, so an echo that straddles a reset is never a sample *)
    (first_code (if o_waiting post then 3%N else 0%N) (lobs_code post), ms)
  | OEnd, BEnd ds => (fold_right (fun d c => first_code (lobs_code (d_l d)) c) 0%N ds, ms)
  | _, _ => (0%N, ms)
  end.

(** first failing (clause, 1-based step); (0, _) = the trace satisfies the property *)
Fixpoint mon_run (D bound : Z) (ms : mstate) (ops : list op) (bs : list obs) (i : N) : N * N :=
  match ops, bs with
  | o :: ops', b :: bs' =>
    let '(c, ms') := mon_step D bound ms o b in
    if (c =? 0)%N then mon_run D bound ms' ops' bs' (i + 1)%N else (c, (i + 1)%N)
  | _, _ => (0%N, 0%N)
  end.

Definition PERIOD : Z := HOUSEKEEPING_INTERVAL_MS.
Definition mon_C14 (n : nat) (ops : list op) (bs : list obs) : N * N :=
  mon_run PERIOD (2 * PERIOD) (repeat m0 n) ops bs 0.

(** the full monitor, and the part that does not speak about finiteness *)
Definition ok_C14 (n : nat) (ops : list op) (bs : list obs) : bool :=
  (fst (mon_C14 n ops bs) =? 0)%N.
Definition ok_C14_nf (n : nat) (ops : list op) (bs : list obs) : bool :=
  let c := fst (mon_C14 n ops bs) in ((c =? 0) || (c =? 5))%N.

(** ---- well-formed inputs: values inhabit their Rust types ---- *)
Definition i32_ok (x : Z) : bool := (i32_min <=? x) && (x <=? i32_max).
Definition tele_okb (t : tele) : bool := i32_ok (t_window t) && i32_ok (t_inflight t) && i32_ok (t_nak t).
Definition u64_ok (x : Z) : bool := (0 <=? x) && (x <? two64).
Definition wf_opb (o : op) : bool :=
  match o with
  | OTick now ts _ => u64_ok now && forallb tele_okb ts
  | OPkt _ b now => u64_ok now && bytes_okb b
  | _ => true
  end.
Definition wf_opsb (ops : list op) : bool := forallb wf_opb ops.

(** ---- cases ---- *)
(** [c_fault]: a send-fault history — some housekeeping passes ran with scripted send errors on an uplink that
    is down (its REG1 / REG2 re-send fails on the socket it still has).  The model has no send-result input
    (a re-send always puts its frame on the wire), so such a history is judged by the monitor on the
    implementation's own trace only (bit1); it is not compared with the model (bit0 only reports an ill-formed
    case).  Every other history is compared step by step as before. *)
Record case := { c_ids : list Z; c_t0 : Z; c_ops : list op; c_obs : list obs; c_fault : bool }.

(** short constructor names with argument scopes, for compact case text *)
Definition LO := Build_lobs.
Arguments LO _ _%Z _%Z _%Z _%Z _%Z _%Z _%Z _%Z _ _%Z _%Z _ _%float.
Definition TE := Build_tele.
Arguments TE _%Z _%Z _%Z _%float.
Definition PO := Build_pobs.
Arguments PO _ _%Z _%Z _%Z _ _%float.
Definition TB := Build_tobs.
Definition FL (l : list float) : list float := l.
Arguments FL _%float.
Definition DU := Build_dump.
(** byte strings cross as (length, one hexadecimal numeral) *)
Definition BH (len n : Z) : list Z := be_bytes (Z.to_nat len) n.
Definition FB (len n : Z) : frame := FBytes (BH len n).
Definition FG := FLong.
Definition CA ids t0 ops obs := Build_case ids t0 ops obs false.
Definition CF ids t0 ops obs := Build_case ids t0 ops obs true.
Arguments OPkt _%nat _%Z _%Z.
Arguments OMark _%nat.
Arguments OSetTimeout _%nat _%Z.

Fixpoint first_diff (a b : list obs) (i : N) : N :=
  match a, b with
  | [], [] => 0%N
  | x :: a', y :: b' => if obs_eqb x y then first_diff a' b' (i + 1)%N else (i + 1)%N
  | _, _ => (i + 1)%N
  end.

(** bit0: model <> implementation (or ill-formed case); bit1: monitor fails on the
    implementation's trace; detail = clause (0 when only bit0), step = first failing step
    of the monitor if bit1, else first differing step. *)
Definition check_case (c : case) : N :=
  let n := length (c_ids c) in
  let d := first_diff (run (c_ids c) (c_t0 c) (c_ops c)) (c_obs c) 0 in
  let wf := wf_opsb (c_ops c) && (length (c_obs c) =? length (c_ops c))%nat in
  let '(cl, st) := mon_C14 n (c_ops c) (c_obs c) in
  let b0 := if ((d =? 0)%N || c_fault c) && wf then 0%N else 1%N in
  let b1 := if (cl =? 0)%N then 0%N else 2%N in
  if ((b0 + b1) =? 0)%N then 0%N
  else (b0 + b1 + 4 * (cl + 256 * (if (cl =? 0)%N then d else st)))%N.
