(** Run_C12.v — the C12 monitor and [check_case].

    The property on one observed routing decision (pre-state, post-state, decision, and —
    for a guard-off decision — the decision the implementation took on the same links
    with all stall history erased, the "history-free twin"):
     1 the decision changed no link's liveness / accounting state and no other decision
       input (connected flag, receive and send stamps, window, in-flight count and log
       size, loss counters, phase, reconnect state, proof stamp, ...): view before = after
     2 guard off: every stall flag, pull and latch (and rejoin run) is cleared on every link
     3 guard off: the decision equals the twin's decision
     4 the lifetime counters (engagements, pulls) never decrease and move by at most one *)
From Coq Require Export Floats.
From Srtla Require Export Base Constants Stall StallSel StallOps Run_Stall.
Local Open Scope Z_scope.

Definition view_eqb (a b : link) : bool := acct_eqb (la a) (la b) && aux_eqb (lx a) (lx b).
Definition views_eqb := list_eqb view_eqb.

Definition cleared (l : link) : bool :=
  negb (g_gated (lg l)) && negb (g_pulled (lg l)) && (g_latched (lg l) =? 0) && (g_recovery (lg l) =? 0).

Definition counters_ok (a b : link) : bool :=
  (g_events (lg a) <=? g_events (lg b)) && (g_events (lg b) <=? g_events (lg a) + 1) &&
  (g_pulls (lg a) <=? g_pulls (lg b)) && (g_pulls (lg b) <=? g_pulls (lg a) + 1).

Fixpoint all2 {A} (f : A -> A -> bool) (a b : list A) : bool :=
  match a, b with
  | [], [] => true
  | x :: a', y :: b' => f x y && all2 f a' b'
  | _, _ => false
  end.

(** clause number of the first violated clause, 0 = none *)
Definition mon12_step (t : tstep) (twin : option (option Z)) : N :=
  match t_op t with
  | OSelect _ _ cfg _ =>
    first_clause [
      (1%N, views_eqb (t_pre t) (t_post t));
      (2%N, cf_guard cfg || forallb cleared (t_post t));
      (3%N, cf_guard cfg || match twin with Some r2 => ozeqb (t_res t) r2 | None => true end);
      (4%N, all2 counters_ok (t_pre t) (t_post t))]
  | _ => 0%N
  end.

Fixpoint mon12 (tr : list (tstep * option (option Z))) (k : N) : N * N :=
  match tr with
  | [] => (0, 0)%N
  | (t, tw) :: rest =>
    let cl := mon12_step t tw in
    if (cl =? 0)%N then mon12 rest (k + 1)%N else (cl, (k + 1)%N)
  end.

Definition ok_C12 (tr : list (tstep * option (option Z))) : bool := (fst (mon12 tr 0) =? 0)%N.

(** the model's own trace with the model's twin decisions *)
Definition twin_of (s : state) (o : op) : option (option Z) :=
  match o with
  | OSelect last now cfg ins =>
    if cf_guard cfg then None else Some (snd (select cfg last now ins (map forget_stall s)))
  | _ => None
  end.

Fixpoint trace12 (s : state) (ops : list op) : list (tstep * option (option Z)) :=
  match ops with
  | [] => []
  | o :: t => let '(s', r) := step s o in (mkT o s s' r, twin_of s o) :: trace12 s' t
  end.

Definition check_case (c : case) : N :=
  let cbad := run_corr (c_init c) (c_init c) (c_steps c) 0 in
  let '(cl, st) := mon12 (impl_trace (c_init c) (c_steps c)) 0 in
  verdict_word cbad cl st.
