(** Run_C17.v — case type, runner, monitor and [check_case] for C17
    "Weak-link classifier cannot starve a link forever or flap on a blip".

    A case is a tick-by-tick history: for every housekeeping tick the per-link
    inputs the harness set on the real [SrtlaConnection]s and what the real
    [WeakLinkFilter::classify] returned (plus the filter's private memory read through
    the verif-hooks dump).  [check_case] = bit0 (model <> implementation) + bit1 (the
    implementation's own trace violates the property text) + 4 * detail.

    The monitor [ok_C17] is the property text as a boolean over the observable trace.
    It keeps its own per-link bookkeeping (what the previous verdict was, whether the
    delay signal held on the previous tick, how many share-weak verdicts in a row,
    how many probation ticks are owed); it never reads the filter's memory. *)
From Coq Require Export Floats.
From Srtla Require Import Base Constants FConstants.
From Srtla Require Export Classifier.
Local Open Scope Z_scope.

(** ---- one tick of a case: inputs + implementation's answer ---------------------- *)
Record tickrec := T { k_in : list lin; k_sel : Z; k_est : Z; k_outs : list lout; k_st : fstate }.
Arguments T _ _%Z _%Z _ _.
Inductive case := Case (ticks : list tickrec).

Definition ops_of (c : case) : list (list lin) := let 'Case ts := c in map k_in ts.
Definition impl_of (c : case) : list (list lin * tout) :=
  let 'Case ts := c in map (fun k => (k_in k, TO (k_sel k) (k_est k) (k_outs k) (k_st k))) ts.

(** ---- the monitor ---------------------------------------------------------------- *)

(** Monitor bookkeeping for one link id. *)
Record mst := M {
  m_pw : bool;     (* previous verdict was weak *)
  m_plow : bool;   (* previous verdict was (weak, LowShare) *)
  m_psig : bool;   (* the delay signal held on the previous tick *)
  m_sw : Z;        (* consecutive share-weak (LowShare / NoTraffic) verdicts so far *)
  m_owed : Z       (* not-weak probation ticks still owed *)
}.
Definition m0 : mst := M false false false 0 0.
Definition mstate := list (Z * mst).

(** The verdict the shell consumes for a link: looked up by [conn_id]; a link without
    an entry is treated as not weak ([unwrap_or(false)] in src/sender/mod.rs). *)
Fixpoint find_out (id : Z) (outs : list lout) : option lout :=
  match outs with
  | [] => None
  | o :: t => if o_id o =? id then Some o else find_out id t
  end.

Definition reason_eqb (a b : reason) : bool :=
  match a, b with
  | RH, RH | RR, RR | RQ, RQ | RN, RN | RL, RL | RB, RB => true
  | _, _ => false
  end.
Definition is_delay_reason (r : reason) : bool := match r with RR | RQ => true | _ => false end.

(** Clause numbers (detail codes):
    1  reported weak while disconnected / total under 100 kbit/s / no connected link
    2  delay verdict without the delay signal on this tick and the previous one
    3  weak during an owed probation tick (after 15 consecutive share-weak verdicts)
    4  entered weak-for-low-share with share >= 250/n permille
    5  left weak-for-low-share with share < 750/n permille outside probation *)
Definition first_clause (c1 c2 c3 c4 c5 : bool) : N :=
  if negb c1 then 1%N else if negb c2 then 2%N else if negb c3 then 3%N
  else if negb c4 then 4%N else if negb c5 then 5%N else 0%N.

Definition implb' (a b : bool) : bool := negb a || b.

(** One link at one tick.  [active] = the link is connected and the tick is not under
    the floor.  Returns the first failing clause (0 = none) and the link's new
    bookkeeping (None = forgotten: the link was not classified on this tick). *)
Definition mon_link (n : Z) (total : float) (sel : Z) (ms : mstate) (outs : list lout) (l : lin)
  : N * option (Z * mst) :=
  let '(weak, rsn) := match find_out (l_id l) outs with
                      | Some o => (o_weak o, o_reason o)
                      | None => (false, RH)
                      end in
  if negb (l_conn l) || (total <? 0x1.86ap+16)%float || (n =? 0) then
    ((if weak then 1 else 0)%N, None)
  else
    let m := lookup m0 ms (l_id l) in
    let sig := (sel <? rtt_of l) || l_qb l in
    let share := share_pm (bps_of l) total in
    let share_weak := weak && is_share_reason rsn in
    let c2 := implb' (weak && is_delay_reason rsn) (sig && m_psig m) in
    let c3 := implb' (0 <? m_owed m) (negb weak) in
    let c4 := implb' (weak && reason_eqb rsn RL && negb (m_pw m)) (share <? 250 / n) in
    let c5 := implb' (m_plow m && negb weak && (m_owed m =? 0)) (750 / n <=? share) in
    let '(sw', owed') :=
      if 0 <? m_owed m then (0, m_owed m - 1)
      else if share_weak then (if m_sw m + 1 =? 15 then (0, 3) else (m_sw m + 1, 0))
      else (0, 0) in
    (first_clause true c2 c3 c4 c5,
     Some (l_id l, M weak (weak && reason_eqb rsn RL) sig sw' owed')).

Fixpoint first_nonzero (l : list N) : N :=
  match l with
  | [] => 0%N
  | x :: t => if (x =? 0)%N then first_nonzero t else x
  end.

(** One tick: every link present in the input is judged against the verdict list. *)
Definition mon_tick (ms : mstate) (ls : list lin) (o : tout) : N * mstate :=
  let rs := map (mon_link (conn_count ls) (total_bps ls) (t_sel o) ms (t_outs o)) ls in
  (first_nonzero (map fst rs), keep_some (map snd rs)).

(** Whole trace: first failing clause, 0 if none. *)
Fixpoint mon_from (ms : mstate) (tr : list (list lin * tout)) : N :=
  match tr with
  | [] => 0%N
  | (ls, o) :: r =>
    let '(c, ms') := mon_tick ms ls o in
    if (c =? 0)%N then mon_from ms' r else c
  end.

Definition ok_C17 (tr : list (list lin * tout)) : bool := (mon_from [] tr =? 0)%N.

(** ---- correspondence: model trace = implementation trace ------------------------- *)
Definition lout_eqb (a b : lout) : bool :=
  (o_id a =? o_id b) && Bool.eqb (o_weak a) (o_weak b) && reason_eqb (o_reason a) (o_reason b) &&
  (o_share a =? o_share b) && (o_thr a =? o_thr b).
Definition lst_eqb (a b : Z * lst) : bool :=
  (fst a =? fst b) && Bool.eqb (s_pw (snd a)) (s_pw (snd b)) && (s_ds (snd a) =? s_ds (snd b)) &&
  (s_ws (snd a) =? s_ws (snd b)) && (s_pr (snd a) =? s_pr (snd b)).
Definition tout_eqb (a b : tout) : bool :=
  (t_sel a =? t_sel b) && (t_est a =? t_est b) && list_eqb lout_eqb (t_outs a) (t_outs b) &&
  list_eqb lst_eqb (t_st a) (t_st b).

(** 1-based index of the first tick at which the traces differ; 0 = equal. *)
Fixpoint first_diff (a b : list (list lin * tout)) (i : N) : N :=
  match a, b with
  | [], [] => 0%N
  | (_, x) :: a', (_, y) :: b' => if tout_eqb x y then first_diff a' b' (i + 1)%N else (i + 1)%N
  | _, _ => (i + 1)%N
  end.

(** Well-formedness of the inputs: connection ids are distinct within a tick. *)
Fixpoint nodupb (l : list Z) : bool :=
  match l with
  | [] => true
  | x :: t => negb (existsb (Z.eqb x) t) && nodupb t
  end.
Definition wf_opsb (ops : list (list lin)) : bool := forallb (fun ls => nodupb (map l_id ls)) ops.

(** detail = monitor clause (1..5) when the monitor fails; otherwise 8 + index of the
    first differing tick when only the correspondence fails; 7 = ill-formed case. *)
Definition check_case (c : case) : N :=
  if negb (wf_opsb (ops_of c)) then (1 + 4 * 7)%N else
  let d := first_diff (run (ops_of c)) (impl_of c) 0 in
  let v := mon_from [] (impl_of c) in
  let b0 := if (d =? 0)%N then 0%N else 1%N in
  let b1 := if (v =? 0)%N then 0%N else 2%N in
  let detail := if (v =? 0)%N then (if (d =? 0)%N then 0%N else 8 + d)%N else v in
  (b0 + b1 + 4 * detail)%N.
