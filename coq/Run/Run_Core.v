(** Run_Core.v — shared case format and evaluator for the integer core family
    (C02 C05 C06 C10-window): ops of Model/Conn.v with the implementation's
    observation after every op.  A property supplies a *monitor*: a state machine
    over (op, impl observation before, impl observation after) that never looks
    at the model. *)
From Srtla Require Import Base Constants Conn.

(** per link: scalar fields + sorted packet-log keys
    scalars = [connected; window; in_flight; hwm; last_recv (-1 = None); proof;
               nak_count; last_nak; last_incr; fast; fast_start; burst; burst_start] *)
Definition lobs := (list Z * list Z)%type.
Definition obs := list lobs.

Fixpoint insert_sorted (x : Z) (l : list Z) : list Z :=
  match l with
  | [] => [x]
  | y :: t => if x <=? y then x :: l else y :: insert_sorted x t
  end.
Definition sort_z (l : list Z) : list Z := fold_right insert_sorted [] l.

Definition zb (b : bool) : Z := if b then 1 else 0.
Definition zo (o : option Z) : Z := match o with Some v => v | None => -1 end.

Definition obs_link (c : link) : lobs :=
  ([zb (connected c); window c; in_flight c; hwm c; zo (last_recv c); proof c;
    nak_count (cg c); last_nak (cg c); last_incr (cg c); zb (fast (cg c)); fast_start (cg c);
    burst (cg c); burst_start (cg c)],
   sort_z (map fst (log c))).
Definition obs_state (s : state) : obs := map obs_link (links s).

Definition lobs_eqb (a b : lobs) : bool := zlist_eqb (fst a) (fst b) && zlist_eqb (snd a) (snd b).
Definition obs_eqb (a b : obs) : bool := list_eqb lobs_eqb a b.

(** accessors on an observed link *)
Definition fld (n : nat) (l : lobs) : Z := nth n (fst l) 0.
Definition o_conn l := fld 0 l =? 1.
Definition o_window := fld 1.
Definition o_inflight := fld 2.
Definition o_hwm := fld 3.
Definition o_lastrecv := fld 4.
Definition o_proof := fld 5.
Definition o_nakcount := fld 6.
Definition o_fast l := fld 9 l =? 1.
Definition o_keys (l : lobs) : list Z := snd l.

Record case := { c_ids : list Z; c_init : obs; c_steps : list (op * obs) }.

(** A monitor: state, initial state from the first observation (with a verdict),
    and a step returning the new state and a clause number (0 = all clauses hold). *)
Record monitor (M : Type) := {
  m_init : list Z -> obs -> M * N;
  m_step : M -> op -> obs -> obs -> M * N }.
Arguments m_init {M}. Arguments m_step {M}.

Fixpoint run_mon {M} (mon : monitor M) (m : M) (prev : obs) (steps : list (op * obs)) (i : N) : N * N :=
  match steps with
  | [] => (0, 0)%N
  | (o, ob) :: t =>
    let '(m', cl) := m_step mon m o prev ob in
    if (cl =? 0)%N then run_mon mon m' ob t (i + 1)%N else (cl, (i + 1)%N)
  end.

Fixpoint run_corr (s : state) (steps : list (op * obs)) (i : N) : N :=
  match steps with
  | [] => 0%N
  | (o, ob) :: t =>
    let s' := step s o in
    if obs_eqb (obs_state s') ob then run_corr s' t (i + 1)%N else (i + 1)%N
  end.

(** result = bit0 (model<>impl) + bit1 (monitor fails) + 4*clause + 1024*step,
    step = first failing monitor step if any, else first diverging step *)
Definition check_with {M} (mon : monitor M) (c : case) : N :=
  let s0 := init (c_ids c) in
  let corr0 := obs_eqb (obs_state s0) (c_init c) in
  let cbad := if corr0 then run_corr s0 (c_steps c) 0 else 1%N in
  let '(m0, cl0) := m_init mon (c_ids c) (c_init c) in
  let '(cl, mbad) := if (cl0 =? 0)%N then run_mon mon m0 (c_init c) (c_steps c) 0 else (cl0, 0%N) in
  let corr_fail := negb corr0 || negb (cbad =? 0)%N in
  let mon_fail := negb (cl =? 0)%N in
  ((if corr_fail then 1 else 0) + (if mon_fail then 2 else 0) + 4 * cl +
   1024 * (if mon_fail then mbad else cbad))%N.

(** first failing clause of a list of (clause number, condition) *)
Fixpoint first_clause (l : list (N * bool)) : N :=
  match l with
  | [] => 0%N
  | (n, ok) :: t => if ok then first_clause t else n
  end.

Fixpoint forall2b {A B} (f : A -> B -> bool) (a : list A) (b : list B) : bool :=
  match a, b with
  | [], [] => true
  | x :: a', y :: b' => f x y && forall2b f a' b'
  | _, _ => false
  end.

Fixpoint forall_idx {A B} (f : nat -> A -> B -> bool) (i : nat) (a : list A) (b : list B) : bool :=
  match a, b with
  | [], [] => true
  | x :: a', y :: b' => f i x y && forall_idx f (S i) a' b'
  | _, _ => false
  end.
