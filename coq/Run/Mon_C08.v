(** Mon_C08.v — typed observations and the C08 monitor: the property text as a boolean
    over what the *implementation* showed after every op.  The monitor keeps its own
    bookkeeping per link (previous observation, "was ever connected", "torn down since
    it was last connected", what the environment did to it); it never looks at a model
    state.  Clause numbers are the detail codes of [check_case]. *)
From Srtla Require Import Base Constants Reconnect ReconShell ReconStep.
Local Open Scope Z_scope.

(** per-link observation (fields of the real SrtlaConnection after the op) *)
Record lobs := LO {
  b_conn : bool; b_lr : Z (* -1 = None *); b_to : Z;
  b_last : Z; b_fail : Z; b_est : Z; b_grace : Z;
  b_ph : Z (* 0 registering 1 warming 2 live 3 degraded *); b_probes : Z; b_entered : Z;
  b_win : Z; b_inf : Z; b_gen : Z;
  b_gated : bool; b_weak : bool; b_backoff : bool; b_lossdeg : bool }.

(** shell / registration-manager observation *)
Record gobs := GO {
  q_pend : Z; q_pto : Z; q_active : Z; q_hasconn : bool; q_bcast : bool; q_target : Z; q_next : Z;
  q_probing : bool; q_lastsel : Z; q_allfail : Z; q_err : bool; q_cfg : Z; q_classic : bool }.

Record stp := SP { s_op : op; s_links : list lobs; s_glob : gobs; s_wire : list (list Z) }.

(** the literals of the property text (tied to the code by constants_ok_C08) *)
Definition T_INIT_GAP : Z := 1000.
Definition T_RETRY_GAP : Z := 5000.
Definition T_BACKOFF_CAP : Z := 120000.
Definition T_REJOIN : Z := 30000.
Definition T_WINDOW : Z := 20000.
Definition T_TICK : Z := 1000.

(** monitor bookkeeping for one link *)
Record mlink := ML {
  m_prev : lobs;          (* observation before this op *)
  m_ever : bool;          (* seen connected at some earlier point *)
  m_torn : bool;          (* torn down since it was last (re)registered *)
  m_shut : bool;          (* env: current socket was made to reject sends *)
  m_bind : bool;          (* env: socket re-creation works *)
  m_io : bool;            (* env: I/O entry present *)
  m_rep : option Z;       (* repaired at T, rejoin still owed *)
  m_envok : bool;         (* the environment kept its promise since T *)
  m_await : bool;         (* a REG2 was sent and not yet answered *)
  m_due : Z;              (* latest time for the next housekeeping tick *)
  m_heard : option Z;
  m_failrec : bool }.     (* the monitor's OWN record: a socket re-creation was attempted while the environment
                             made it fail (bind refused / no I/O entry) since the last REG3 *)   (* the monitor's OWN record of when this link last heard from the receiver
                             (an inbound datagram, a keepalive echo, a REG3) since its last teardown *)

Definition gen_changed (p q : lobs) : bool := negb (b_gen q =? b_gen p).
Definition torn_down (p q : lobs) : bool := gen_changed p q || (b_conn p && negb (b_conn q)).

(** "has heard nothing for the configured timeout" at time [now] *)
Definition heard_nothing (p : lobs) (now cfg : Z) : bool :=
  if b_lr p =? -1 then negb (b_conn p) else cfg <=? now - b_lr p.

(** ... judged by the monitor's own record of inbound traffic, not by the stamp the code keeps: a
    connected link that the history shows was heard from within the timeout must not be torn down *)
Definition heard_nothing_mon (m : mlink) (now cfg : Z) : bool :=
  match m_heard m with Some h => cfg <=? now - h | None => true end.

Definition op_on (o : op) : option nat :=
  match o with
  | OReg3 i _ | OReg2 i _ _ | ONgp i _ | ORegErr i _ | OKeepalive i _ _ | OInbound i _ _
  | OSetBind i _ | OShut i | ODropIo i | OSetPen i _ | ORepair i _ => Some i
  | _ => None
  end.
Definition is_tick (o : op) : option Z := match o with OTick t _ _ _ => Some t | _ => None end.

(** clause 1: teardown only in a tick that found the link silent for the configured
    timeout, or on a failed send, or when the receiver refused it (REG_ERR, a fault op) *)
Definition c_teardown (o : op) (i : nat) (m : mlink) (q : lobs) (cfg : Z) : bool :=
  let p := m_prev m in
  if torn_down p q then
    match o with
    | OTick now _ _ _ => heard_nothing p now cfg && (negb (b_conn p) || heard_nothing_mon m now cfg)
    | OData _ _ _ _ _ => negb (gen_changed p q) && m_shut m
    | ORegErr j _ => Nat.eqb j i && negb (gen_changed p q)
    | _ => false
    end
  else true.

(** clause 2: attempts only in ticks, >= 1 s apart before the first establishment,
    >= 5 s apart afterwards *)
Definition c_spacing (o : op) (m : mlink) (q : lobs) : bool :=
  let p := m_prev m in
  if b_last q =? b_last p then true else
  match o with
  | OTick now _ _ _ =>
    (b_last q =? now) &&
    ((b_last p =? 0) || ((if m_ever m then T_RETRY_GAP else T_INIT_GAP) <=? now - b_last p))
  | _ => false
  end.

(** clause 3: retries never stop — a dead link whose last attempt is >= 120 s old (and
    whose startup grace has run out) is retried by the very next tick.  [probing]: the
    start-up RTT probing was still in progress before this tick (it may re-arm the
    startup grace of the link it selects; that is not back-off and is not judged here) *)
Definition c_forever (o : op) (probing : bool) (m : mlink) (q : lobs) : bool :=
  let p := m_prev m in
  match o with
  | OTick now _ _ _ =>
    if negb probing && negb (b_conn p) && (b_lr p =? -1) && negb (b_last p =? 0) && (T_BACKOFF_CAP <=? now - b_last p)
       && (b_grace p <? now)
    then b_last q =? now else true
  | _ => true
  end.

(** clause 5: a REG3 leaves clean accounting: connected, zero in-flight, Warming{0, now} *)
Definition c_rejoin (o : op) (i : nat) (q : lobs) : bool :=
  match o with
  | OReg3 j now =>
    if Nat.eqb j i then b_conn q && (b_inf q =? 0) && (b_ph q =? 1) && (b_probes q =? 0) && (b_entered q =? now)
                        && (b_lr q =? now)
    else true
  | _ => true
  end.

(** clause 6: ... and the default window when this is a rejoin after a teardown *)
Definition c_rejoin_window (o : op) (i : nat) (m : mlink) (q : lobs) : bool :=
  match o with
  | OReg3 j _ => if Nat.eqb j i && m_torn m then b_win q =? T_WINDOW else true
  | _ => true
  end.

Definition has_code (c : Z) (w : list Z) : bool := existsb (Z.eqb c) w.

(** clause 7 bookkeeping: the environment's promise after [ORepair i T] *)
Definition env_step (o : op) (i : nat) (m : mlink) (q : lobs) (w : list Z) : option Z * bool * bool * Z :=
  let hit := match op_on o with Some j => Nat.eqb j i | None => false end in
  match o with
  | ORepair _ now =>
    if hit then
      if negb (b_conn q) && negb (m_failrec m) && m_bind m && m_io m && negb (m_shut m)
      then (Some now, true, false, now + T_TICK) else (None, false, false, 0)
    else (m_rep m, m_envok m, m_await m, m_due m)
  | OTick now _ _ _ =>
    let ok := m_envok m && negb (m_await m) && (now <=? m_due m) && negb (has_code W_REG1 w) in
    (m_rep m, ok, has_code W_REG2 w, now + T_TICK)
  | OReg3 _ _ => (m_rep m, m_envok m, if hit then false else m_await m, m_due m)
  | OSetBind _ true | OKeepalive _ _ _ | OInbound _ _ _ | OSetPen _ _ => (m_rep m, m_envok m, m_await m, m_due m)
  | _ => (m_rep m, if hit then false else m_envok m, m_await m, m_due m)
  end.

(** clause 7: repaired at T and the environment kept its promise => connected by T + 30 s *)
Definition c_bound (o : op) (rep : option Z) (envok : bool) (q : lobs) : bool :=
  match rep, op_time o with
  | Some T, Some t => negb (envok && negb (b_conn q) && (T + T_REJOIN <? t))
  | _, _ => true
  end.

Definition mon_link (o : op) (cfg : Z) (probing : bool) (i : nat) (m : mlink) (q : lobs) (w : list Z) : N * mlink :=
  let p := m_prev m in
  let '(rep, envok, await, due) := env_step o i m q w in
  let code : N :=
    if negb (c_teardown o i m q cfg) then 1%N
    else if negb (c_spacing o m q) then 2%N
    else if negb (c_forever o probing m q) then 3%N
    else if negb (c_rejoin o i q) then 5%N
    else if negb (c_rejoin_window o i m q) then 6%N
    else if negb (c_bound o rep envok q) then 7%N
    else 0%N in
  let hit := match op_on o with Some j => Nat.eqb j i | None => false end in
  let torn := match o with
              | OReg3 _ _ => if hit then false else m_torn m
              | _ => m_torn m || torn_down p q
              end in
  let shut := if gen_changed p q then false else match o with OShut _ => hit || m_shut m | _ => m_shut m end in
  let bind := match o with OSetBind _ b => if hit then b else m_bind m | _ => m_bind m end in
  let io := match o with ODropIo _ => if hit then false else m_io m | _ => m_io m end in
  let heard := if torn_down p q then None
               else match o with
                    | OKeepalive _ now _ | OInbound _ now _ | OReg3 _ now => if hit then Some now else m_heard m
                    | ORegErr _ _ => if hit then None else m_heard m
                    | _ => m_heard m
                    end in
  let failrec := match o with
                 | OTick now _ _ _ =>
                   if (b_last q =? now) && negb (b_last p =? now) && negb (m_bind m && m_io m) then true else m_failrec m
                 | OReg3 _ _ => if hit then false else m_failrec m
                 | _ => m_failrec m
                 end in
  (code, ML q (m_ever m || b_conn q) torn shut bind io (if b_conn q then None else rep) envok await due heard failrec).
