(** Run_Sel.v — shared by C03 and C11: the op alphabet of the selection family, the
    implementation-trace type, the model runner and the bit-exact trace comparison.

    Ops (DESIGN Appendix B, core family, selection slice):
      [OLoad ls]      every link replaced by an arbitrary state (all 27 modelled fields; on the
                      real side the fields are written into real [SrtlaConnection]s and read back)
      [OUpd i l]      link [i] takes the *externally driven* fields of [l] (connected, phase,
                      window, in-flight, queue, clocks, flags, rates, NAK history); the fields only
                      [select_connection_idx] writes (latch, pull, gate, timeout, quality cache)
                      are kept — so latch / pull / cache *history* is built by the real code
      [OSelect ..]    one call of [select_connection_idx(conns, last, now, cfg)]; [exps] are the
                      libm [exp] values the call would use, one per link (oracle inputs).
    Observation after a select: the returned index, the written fields of every link, and a
    flag saying that no other modelled field of any link changed. *)
From Coq Require Export Floats.
From Srtla Require Import Base Constants FConstants.
From Srtla Require Export Select.
Local Open Scope Z_scope.

Inductive op :=
| OLoad (ls : list link)
| OUpd (i : nat) (l : link)
| OSelect (last : option nat) (now : Z) (cfg : config) (exps : list float).

Record sobs := SO { o_res : option nat; o_hid : list hid; o_pubsame : bool }.

Inductive event :=
| EL (ls : list link)
| EU (i : nat) (l : link)
| ES (last : option nat) (now : Z) (cfg : config) (exps : list float) (o : sobs).

(** ---- state tracking shared by the model runner and the monitors ---------------------- *)
Fixpoint upd_nth (ls : list link) (i : nat) (l : link) : list link :=
  match ls, i with
  | [], _ => []
  | c :: t, O => set_hid l (hid_of c) :: t
  | c :: t, S k => c :: upd_nth t k l
  end.

Fixpoint set_hids (ls : list link) (hs : list hid) : list link :=
  match ls, hs with
  | c :: t, h :: u => set_hid c h :: set_hids t u
  | _, _ => ls
  end.

(** the link set after an event, as the implementation reported it *)
Definition track (s : list link) (ev : event) : list link :=
  match ev with
  | EL ls => ls
  | EU i l => upd_nth s i l
  | ES _ _ _ _ o => set_hids s (o_hid o)
  end.

(** ---- the model runner ----------------------------------------------------------------- *)
Definition model_select (s : list link) last now cfg exps : sobs * list link :=
  let '(r, s') := select s last now cfg exps in
  (SO r (map hid_of s') true, s').

Fixpoint run_from (s : list link) (ops : list op) : list event :=
  match ops with
  | [] => []
  | OLoad ls :: r => EL ls :: run_from ls r
  | OUpd i l :: r => EU i l :: run_from (upd_nth s i l) r
  | OSelect last now cfg exps :: r =>
      let '(o, s') := model_select s last now cfg exps in
      ES last now cfg exps o :: run_from s' r
  end.
Definition run (ops : list op) : list event := run_from [] ops.

(** ---- a case: ops + what the implementation answered at each select -------------------- *)
Record case := Case { c_ops : list op; c_obs : list sobs }.

Definition dummy_obs : sobs := SO None [] false.
Fixpoint impl_trace (ops : list op) (obs : list sobs) : list event :=
  match ops with
  | [] => []
  | OLoad ls :: r => EL ls :: impl_trace r obs
  | OUpd i l :: r => EU i l :: impl_trace r obs
  | OSelect last now cfg exps :: r =>
      ES last now cfg exps (hd dummy_obs obs) :: impl_trace r (tl obs)
  end.

(** ---- bit-exact comparison ---------------------------------------------------------------- *)
Definition sf_eqb (a b : spec_float) : bool :=
  match a, b with
  | S754_zero s, S754_zero t => Bool.eqb s t
  | S754_infinity s, S754_infinity t => Bool.eqb s t
  | S754_nan, S754_nan => true
  | S754_finite s m e, S754_finite t n f => Bool.eqb s t && Pos.eqb m n && Z.eqb e f
  | _, _ => false
  end.
Definition feqb (x y : float) : bool := sf_eqb (Prim2SF x) (Prim2SF y).

Definition hid_eqb (a b : hid) : bool :=
  (h_timeout a =? h_timeout b) && Bool.eqb (h_gated a) (h_gated b) &&
  Bool.eqb (h_pulled a) (h_pulled b) && (h_pulls a =? h_pulls b) &&
  (h_latched a =? h_latched b) && (h_recov a =? h_recov b) && (h_gevents a =? h_gevents b) &&
  feqb (h_qmult a) (h_qmult b) && (h_qlast a =? h_qlast b).

Definition sobs_eqb (a b : sobs) : bool :=
  onat_eqb (o_res a) (o_res b) && list_eqb hid_eqb (o_hid a) (o_hid b) &&
  Bool.eqb (o_pubsame a) (o_pubsame b).

(** 1-based index of the first op at which the traces differ; 0 = equal
    (Load / Upd events carry no observation). *)
Fixpoint first_diff (a b : list event) (i : N) : N :=
  match a, b with
  | [], [] => 0%N
  | ES _ _ _ _ x :: a', ES _ _ _ _ y :: b' =>
      if sobs_eqb x y then first_diff a' b' (i + 1)%N else (i + 1)%N
  | _ :: a', _ :: b' => first_diff a' b' (i + 1)%N
  | _, _ => (i + 1)%N
  end.

(** ---- well-formedness of inputs (premise of the theorems, evaluated on every case) ------- *)
(** libm's [exp] at a non-positive argument lies in [0, 1]: the only fact assumed about it. *)
Definition exp_okb (e : float) : bool := (0 <=? e)%float && (e <=? 1)%float.

(** documented range of the quality multiplier: [(1 - 0.5) * 0.7, 1.1 * 1.03] *)
Definition Q_LO : float := ((1 - MAX_PENALTY) * NAK_BURST_PENALTY)%float.
Definition Q_HI : float := (PERFECT_CONNECTION_BONUS * MAX_RTT_BONUS)%float.
Definition q_rangeb (q : float) : bool := (Q_LO <=? q)%float && (q <=? Q_HI)%float.

(** A link state that the rest of the sender can produce: the window is not negative
    (C06: it stays in [1000, 60000]), the queue length is a length, the CC target is a u64, and the cached quality
    multiplier is a value [calculate_quality_multiplier] can return (or the initial 1.0). *)
Definition wf_pubb (c : link) : bool :=
  (0 <=? l_window c) && (l_window c <=? i32_max) && (0 <=? l_queued c) &&
  (0 <=? l_cct c) && (l_cct c <=? u64_max).
Definition wf_linkb (c : link) : bool := wf_pubb c && q_rangeb (l_qmult c).

Definition wf_opb (o : op) : bool :=
  match o with
  | OLoad ls => forallb wf_linkb ls
  | OUpd _ l => wf_pubb l
  | OSelect _ _ _ exps => forallb exp_okb exps
  end.
Definition wf_opsb (ops : list op) : bool := forallb wf_opb ops.

(** "usable (registered, connected and not timed out)" in the property's own words:
    registered = the REG3 handshake completed (phase is not Registering); connected = the flag;
    timed out = the last datagram received on the link is at least [timeout] ms old (a connected
    link that has not received anything yet is not timed out: its clock has not started). *)
Definition usable_spec (now timeout : Z) (c : link) : bool :=
  l_conn c &&
  match l_phase c with PReg => false | _ => true end &&
  match l_lastrx c with
  | None => true
  | Some lr => Z.max 0 (now - lr) <? timeout
  end.

(** 1 + 2 * violation-bit + 4 * detail + 1024 * step *)
Definition verdict (diff viol : N) (vstep : N) : N :=
  let b0 := if (diff =? 0)%N then 0%N else 1%N in
  if (viol =? 0)%N then (b0 + 4 * (if (diff =? 0)%N then 0 else 128) + 1024 * diff)%N
  else (b0 + 2 + 4 * viol + 1024 * vstep)%N.
