(** Run_C15.v — case type, model runner, monitor and [check_case] for C15.
    A case carries the inputs *and* what the Rust implementation returned;
    [check_case] = bit0 (model <> implementation) + bit1 (implementation output
    violates the property as stated: panic, NAK bound, layouts, round trips). *)
From Srtla Require Import Base Constants Wire WireSpec.

Record dec_out := {
  d_panic : bool;
  d_type : option Z;
  d_seq : option Z;
  d_retr : bool;
  d_kats : option Z;
  d_info : option (list Z);
  d_ack : option Z;
  d_nak : list Z;
  d_sack : list Z;
  d_is : list bool  (* is_srtla_reg1, reg2, reg3, keepalive, is_srt_ack *)
}.

Definition panic_out : dec_out :=
  {| d_panic := true; d_type := None; d_seq := None; d_retr := false; d_kats := None;
     d_info := None; d_ack := None; d_nak := []; d_sack := []; d_is := [] |}.

Definition model_dec (b : list Z) : dec_out :=
  match
    (ty <- get_packet_type b ;; sq <- get_srt_sequence_number b ;;
     rt <- is_srt_data_retransmit b ;; ts <- extract_keepalive_timestamp b ;;
     inf <- extract_keepalive_conn_info b ;; ak <- parse_srt_ack b ;;
     nk <- parse_srt_nak b ;; sk <- parse_srtla_ack b ;;
     r1 <- is_srtla_reg1 b ;; r2 <- is_srtla_reg2 b ;; r3 <- is_srtla_reg3 b ;;
     ka <- is_srtla_keepalive b ;; sa <- is_srt_ack b ;;
     Ok {| d_panic := false; d_type := ty; d_seq := sq; d_retr := rt; d_kats := ts;
           d_info := inf; d_ack := ak; d_nak := nk; d_sack := sk;
           d_is := [r1; r2; r3; ka; sa] |})
  with
  | Ok o => o
  | _ => panic_out
  end.

Definition olist_eqb := opt_eqb zlist_eqb.
Definition blist_eqb := list_eqb Bool.eqb.

Definition dec_out_eqb (a b : dec_out) : bool :=
  Bool.eqb (d_panic a) (d_panic b) && ozeqb (d_type a) (d_type b) && ozeqb (d_seq a) (d_seq b) &&
  Bool.eqb (d_retr a) (d_retr b) && ozeqb (d_kats a) (d_kats b) && olist_eqb (d_info a) (d_info b) &&
  ozeqb (d_ack a) (d_ack b) && zlist_eqb (d_nak a) (d_nak b) && zlist_eqb (d_sack a) (d_sack b) &&
  blist_eqb (d_is a) (d_is b).

(** The property on the implementation's own output for one input. *)
Definition ok_dec (b : list Z) (o : dec_out) : bool :=
  negb (d_panic o) &&
  (blen (d_nak o) <=? 1000 + (blen b - 4) / 4) &&
  (if blen b <? 8 then zlist_eqb (d_nak o) [] else true) &&
  ozeqb (d_type o) (spec_type b) &&                       (* big-endian type *)
  ozeqb (d_seq o) (spec_seq b) &&                          (* data = clear top bit *)
  Bool.eqb (d_retr o) (spec_retransmit b) &&               (* R flag = bit 2 of byte 4 *)
  ozeqb (d_ack o) (spec_parse_srt_ack b) &&                (* ACK number at 16..20 *)
  zlist_eqb (d_nak o) (spec_parse_srt_nak b) &&            (* ranges marked by the top bit *)
  zlist_eqb (d_sack o) (spec_parse_srtla_ack b) &&         (* 4-byte header + BE u32s *)
  (match d_kats o with None => true | Some _ => (10 <=? blen b) && ozeqb (spec_type b) (Some SRTLA_TYPE_KEEPALIVE) end).

Inductive case :=
| CDec (inp : list Z) (o : dec_out)
| CReg (which : Z) (id : list Z) (out : list Z) (isr : bool)
| CKa (now : Z) (out : list Z) (rts : option Z)
| CKaExt (info : list Z) (now : Z) (out : list Z) (rts : option Z) (rinfo : option (list Z))
| CAck (acks : list Z) (out : list Z) (rt : list Z)
| CFam (len salt k0 : Z) (blocks : list Z).  (* 256-type blocks k0, k0+1, ... *)

(** ---- exhaustive type-code family, generated on both sides by the same rule ---- *)
Definition fam_tail_byte (t j salt : Z) : Z := (t * 7 + j * 31 + salt + (t / 256) * 13) mod 256.
Fixpoint fam_tail (n : nat) (t j salt : Z) : list Z :=
  match n with O => [] | S k => fam_tail_byte t j salt :: fam_tail k t (j + 1) salt end.
Definition fam_frame (len salt t : Z) : list Z :=
  firstn (Z.to_nat len) ([t / 256; t mod 256] ++ fam_tail (Z.to_nat (len - 2)) t 2 salt).

(** cheap position-weighted checksum (no division): state = (sum, position) *)
Definition hstep (acc : Z * Z) (v : Z) : Z * Z :=
  let '(a, k) := acc in (a + (v + 7) * k, k + 1).
Definition hopt (acc : Z * Z) (o : option Z) : Z * Z :=
  match o with None => hstep acc (-1) | Some v => hstep (hstep acc 1) v end.
Definition hlist (acc : Z * Z) (l : list Z) : Z * Z := fold_left hstep l (hstep acc (blen l)).
Definition hbool (acc : Z * Z) (b : bool) : Z * Z := hstep acc (if b then 1 else 0).
Definition hash_out (acc : Z * Z) (o : dec_out) : Z * Z :=
  let a := hbool acc (d_panic o) in
  let a := hopt a (d_type o) in
  let a := hopt a (d_seq o) in
  let a := hbool a (d_retr o) in
  let a := hopt a (d_kats o) in
  let a := match d_info o with None => hstep a (-1) | Some l => hlist (hstep a 1) l end in
  let a := hopt a (d_ack o) in
  let a := hlist a (d_nak o) in
  let a := hlist a (d_sack o) in
  fold_left hbool (d_is o) a.

Fixpoint fam_block (n : nat) (len salt t : Z) (acc : Z * Z) : Z :=
  match n with
  | O => fst acc
  | S k => fam_block k len salt (t + 1) (hash_out acc (model_dec (fam_frame len salt t)))
  end.
Fixpoint fam_blocks (n : nat) (len salt k : Z) : list Z :=
  match n with
  | O => []
  | S m => fam_block 256 len salt (k * 256) (0, 1) :: fam_blocks m len salt (k + 1)
  end.

Definition u32_list_ok (l : list Z) : bool := forallb (fun x => (0 <=? x) && (x <? two32)) l.

Definition bit (b : bool) (n : N) : N := if b then n else 0%N.

Definition verdict (corr ok : bool) : N := (bit (negb corr) 1 + bit (negb ok) 2)%N.

Definition check_case (c : case) : N :=
  match c with
  | CDec inp o =>
    verdict (dec_out_eqb (model_dec inp) o)
      (ok_dec inp o)
  | CReg which id out isr =>
    let m := if which =? 1 then create_reg1_packet id else create_reg2_packet id in
    let mo := model_dec out in
    let isr_m := nth (Z.to_nat (which - 1)) (d_is mo) false in
    verdict (zlist_eqb m out && Bool.eqb isr isr_m)
      ((blen out =? 258) && zlist_eqb (firstn 2 out) [146; which - 1] &&
                zlist_eqb (skipn 2 out) id && isr)
  | CKa now out rts =>
    verdict (zlist_eqb (create_keepalive_packet now) out &&
                ozeqb rts (d_kats (model_dec out)))
      ((blen out =? 10) && zlist_eqb out ([144; 0] ++ be_bytes 8 now) &&
                ozeqb rts (Some now))
  | CKaExt info now out rts rinfo =>
    verdict (zlist_eqb (create_keepalive_packet_ext info now) out &&
                ozeqb rts (d_kats (model_dec out)) &&
                olist_eqb rinfo (d_info (model_dec out)))
      ((blen out =? 38) && zlist_eqb (firstn 10 out) ([144; 0] ++ be_bytes 8 now) &&
                zlist_eqb (firstn 4 (skipn 10 out)) [192; 31; 0; 1] &&
                ozeqb rts (Some now) && olist_eqb rinfo (Some info))
  | CAck acks out rt =>
    verdict (zlist_eqb (create_ack_packet acks) out &&
                zlist_eqb rt (d_sack (model_dec out)))
      ((blen out =? 4 + 4 * blen acks) && zlist_eqb (firstn 4 out) [145; 0; 0; 0] &&
                zlist_eqb (skipn 4 out) (concat (map (be_bytes 4) acks)) &&
                zlist_eqb rt acks)
  | CFam len salt k0 blocks =>
    (* agreement on a block implies the monitor for its frames, by theorem
       C15_decoders_match_layout; a disagreeing block is expanded by the driver *)
    let mb := fam_blocks (length blocks) len salt k0 in
    let bad := first_bad (fun p => fst p =? snd p) (combine mb blocks) 0 in
    if (bad =? 0)%N then 0%N else (1 + 4 * bad)%N
  end.
