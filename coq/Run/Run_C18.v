(** Run_C18.v — case type, monitor and [check_case] for C18 "runtime control protocol
    is total, well-formed and takes effect".

    A sequential case feeds every line to BOTH entry points (`dispatch` = stdin,
    `dispatch_async` = socket), each working on its own `DynamicConfig` built the same
    way, and records after every line: panicked?, the response line parsed back into a
    JSON tree, the configuration snapshot.  [mon_C18] is the property text as a
    function of that trace only (it uses ControlSpec.v, never the dispatcher model).

    check_case = bit0 (model trace <> implementation trace)
               + bit1 (monitor fails on the implementation trace)
               + 4 * detail   (bit1: clause + 16*entry, see [mon_step]; else 1000 + step). *)
From Coq Require Import DecimalString.
From Srtla Require Import Base Constants.
From Srtla Require Export Json Control ControlSpec ControlConc.
Local Open Scope string_scope.
Local Open Scope Z_scope.

(** ---- a response line, as JSON-RPC 2.0 demands it ---- *)
Inductive rbody := RResult (v : json) | RError (code : Z).

Definition error_code (e : json) : option Z :=
  match e with
  | JObj em =>
      match assoc "code" em, assoc "message" em with
      | Some (JInt c), Some (JStr _) =>
          if (List.length em =? 2)%nat then Some c
          else if (List.length em =? 3)%nat then match assoc "data" em with Some _ => Some c | None => None end
          else None
      | _, _ => None
      end
  | _ => None
  end.

(** exactly the members jsonrpc = "2.0", id, and one of result / error{code:int, message:string[, data]} *)
Definition parse_response (r : json) : option (json * rbody) :=
  match r with
  | JObj m =>
      if (List.length m =? 3)%nat then
        match assoc "jsonrpc" m, assoc "id" m with
        | Some (JStr v), Some id =>
            if String.eqb v "2.0" then
              match assoc "result" m, assoc "error" m with
              | Some x, None => Some (id, RResult x)
              | None, Some e => option_map (fun c => (id, RError c)) (error_code e)
              | _, _ => None
              end
            else None
        | _, _ => None
        end
      else None
  | _ => None
  end.

Definition in_timeout_range (c : config) : bool := (1000 <=? c_timeout c) && (c_timeout c <=? 60000).

(** ---- the monitor: one line on one entry point ----
    clauses: 1 panicked; 2 response present/absent against the rule (id => exactly one,
    notification / blank => none); 3 not a well-formed JSON-RPC 2.0 response; 4 id not
    echoed; 5 wrong result/error kind or error code; 6 a successful set_* not visible in
    the snapshot; 7 timeout outside 1000..60000; 8 a successful set_* not visible in
    get_status; 9 set_conn_timeout does not echo the applied (clamped) value;
    10 stdin and socket answer a non-subscription request differently. *)
Definition mon_result (l : line_outcome) (t : tracked) (v : json) : N :=
  let st := match spec_method l with
            | Some (me, _) => if String.eqb me "get_status" then status_shows t v else true
            | None => true
            end in
  if negb st then 8%N
  else match spec_setting l with
       | Some (STimeout z) =>
           match vget v "ms" with Some (JInt a) => if a =? z then 0%N else 9%N | _ => 9%N end
       | _ => 0%N
       end.

Definition mon_response (e : entry) (l : line_outcome) (t : tracked) (r : option json) : N :=
  match spec_expect e l, r with
  | ENone, None => 0%N
  | ENone, Some _ => 2%N
  | _, None => 2%N
  | ex, Some r =>
      match parse_response r with
      | None => 3%N
      | Some (id, b) =>
          let want := match ex with EError i _ | EResult i | EResultOrInternal i => i | ENone => JNull end in
          if negb (json_eqb id want) then 4%N
          else match ex, b with
               | EError _ c, RError c' => if c =? c' then 0%N else 5%N
               | EResult _, RResult v => mon_result l t v
               | EResultOrInternal _, RResult _ => 0%N
               | EResultOrInternal _, RError c => if c =? -32603 then 0%N else 5%N
               | _, _ => 5%N
               end
      end
  end.

Definition mon_entry (e : entry) (l : line_outcome) (t : tracked) (o : obs1) : N :=
  if o_panic o then 1%N
  else match mon_response e l t (o_resp o) with
       | 0%N => if negb (in_timeout_range (o_snap o)) then 7%N
                else if negb (snap_shows t (o_snap o)) then 6%N else 0%N
       | n => n
       end.

Definition resp_same (a b : option json) : bool := opt_eqb json_eqb a b.

Definition mon_agree (l : line_outcome) (b : obs) : N :=
  match spec_method l with
  | Some (me, _) =>
      if is_sub_method me then 0%N
      else if resp_same (o_resp (ob_sync b)) (o_resp (ob_async b)) then 0%N else 10%N
  | None => 0%N
  end.

(** clause + 16 * entry (0 stdin, 1 socket, 2 both), 0 = this step is fine *)
Definition mon_step (ctx : bool) (t : tracked) (o : op) (b : obs) : N :=
  let l := o_line o in
  match mon_entry Stdin l t (ob_sync b) with
  | 0%N => match mon_entry (Socket ctx) l t (ob_async b) with
           | 0%N => match mon_agree l b with 0%N => 0%N | n => (n + 32)%N end
           | n => (n + 16)%N
           end
  | n => n
  end.

Fixpoint mon_steps (ctx : bool) (t : tracked) (s : list (op * obs)) : N :=
  match s with
  | [] => 0%N
  | (o, b) :: rest =>
      let t' := track t (spec_setting (o_line o)) in
      match mon_step ctx t' o b with
      | 0%N => mon_steps ctx t' rest
      | n => n
      end
  end.

Definition mon_C18 (ctx : bool) (tr : trace) : N :=
  match tr_snap0 tr with
  | None => 1%N
  | Some c => if negb (in_timeout_range c) then 7%N else mon_steps ctx tracked_none (tr_steps tr)
  end.

Definition ok_C18 (ctx : bool) (tr : trace) : bool := (mon_C18 ctx tr =? 0)%N.

(** ---- correspondence: model trace against implementation trace ---- *)
Definition cfg_eqb (a b : config) : bool :=
  mode_eqb (c_mode a) (c_mode b) && Bool.eqb (c_quality a) (c_quality b) && Bool.eqb (c_stall a) (c_stall b) &&
  (c_mif a =? c_mif b) && (c_stale a =? c_stale b) && (c_timeout a =? c_timeout b).

Definition rbody_eqb (a b : rbody) : bool :=
  match a, b with
  | RResult x, RResult y => json_eqb x y
  | RError x, RError y => x =? y
  | _, _ => false
  end.

(** responses are compared as (id, result | error code); message text and error data are not modelled *)
Definition resp_eqv (a b : option json) : bool :=
  match a, b with
  | None, None => true
  | Some x, Some y =>
      match parse_response x, parse_response y with
      | Some (i, p), Some (j, q) => json_eqb i j && rbody_eqb p q
      | _, _ => false
      end
  | _, _ => false
  end.

Definition obs1_eqv (a b : obs1) : bool :=
  Bool.eqb (o_panic a) (o_panic b) && resp_eqv (o_resp a) (o_resp b) && cfg_eqb (o_snap a) (o_snap b).
Definition obs_eqv (a b : obs) : bool :=
  obs1_eqv (ob_sync a) (ob_sync b) && obs1_eqv (ob_async a) (ob_async b).

(** index (1-based) of the first step on which model and implementation differ; 0 = none *)
Fixpoint first_diff (m : list (op * obs)) (impl : list obs) (i : N) : N :=
  match m, impl with
  | [], [] => 0%N
  | (_, a) :: m', b :: impl' => if obs_eqv a b then first_diff m' impl' (i + 1)%N else (i + 1)%N
  | _, _ => (i + 1)%N
  end.

(* vocabulary: BEGIN — interned strings of the case files (string literals are the slow part of
   parsing a case file); the harness reads this block, so the two sides cannot drift *)
Definition v0 : string := "jsonrpc".
Definition v1 : string := "method".
Definition v2 : string := "params".
Definition v3 : string := "id".
Definition v4 : string := "2.0".
Definition v5 : string := "error".
Definition v6 : string := "code".
Definition v7 : string := "message".
Definition v8 : string := "data".
Definition v9 : string := "result".
Definition v10 : string := "set_mode".
Definition v11 : string := "set_quality".
Definition v12 : string := "set_stall_deselect".
Definition v13 : string := "set_conn_timeout".
Definition v14 : string := "get_status".
Definition v15 : string := "get_stats".
Definition v16 : string := "subscribe".
Definition v17 : string := "unsubscribe".
Definition v18 : string := "get_subscription_count".
Definition v19 : string := "mode".
Definition v20 : string := "enabled".
Definition v21 : string := "ms".
Definition v22 : string := "topic".
Definition v23 : string := "subscription_id".
Definition v24 : string := "classic".
Definition v25 : string := "enhanced".
Definition v26 : string := "stats".
Definition v27 : string := "priority.window".
Definition v28 : string := "removed".
Definition v29 : string := "count".
Definition v30 : string := "conn_timeout_ms".
Definition v31 : string := "critical_malformed_datagrams".
Definition v32 : string := "critical_windows_received".
Definition v33 : string := "quality_enabled".
Definition v34 : string := "stall_ack_stale_ms".
Definition v35 : string := "stall_deselect".
Definition v36 : string := "stall_min_in_flight".
Definition v37 : string := "active_links".
Definition v38 : string := "total_links".
Definition v39 : string := "total_window".
Definition v40 : string := "total_in_flight".
Definition v41 : string := "weak_link_estimated_max_delay_ms".
Definition v42 : string := "weak_link_selected_delay_ms".
Definition v43 : string := "links".
Definition v44 : string := "parse error".
Definition v45 : string := "jsonrpc version must be ""2.0""".
Definition v46 : string := "expected params.mode: string".
Definition v47 : string := "expected params.enabled: bool".
Definition v48 : string := "expected params.ms: u64".
Definition v49 : string := "expected params.topic: string".
Definition v50 : string := "expected params.subscription_id: string".
Definition v51 : string := "stats provider not registered".
Definition v52 : string := "subscribe is reserved for a future streaming protocol, not yet implemented".
Definition v53 : string := "unsubscribe is reserved for a future streaming protocol, not yet implemented".
Definition v54 : string := "unknown method: get_subscription_count".
Definition v55 : string := "unknown method: subscribe".
Definition v56 : string := "unknown method: unsubscribe".
Definition v57 : string := "".
Definition v58 : string := "noop".
Definition v59 : string := "set_mode ".
Definition v60 : string := "Set_mode".
Definition v61 : string := "SET_MODE".
Definition v62 : string := "set-mode".
Definition v63 : string := "setmode".
Definition v64 : string := "get_statu".
Definition v65 : string := "get_status2".
Definition v66 : string := "mark_critical".
Definition v67 : string := "set_conn_timeout_ms".
Definition v68 : string := "subscribe ".
Definition v69 : string := "unsubscribe_all".
Definition v70 : string := "rpc.discover".
Definition v71 : string := "été".
Definition v72 : string := "a""b".
Definition v73 : string := "x/y\z".
Definition v74 : string := "😀".
Definition v75 : string := "a".
Definition v76 : string := "abc".
Definition v77 : string := "sub-0".
Definition v78 : string := "sub-1".
Definition v79 : string := "sub-2".
Definition v80 : string := "sub-3".
Definition v81 : string := "sub-4".
Definition v82 : string := "sub-5".
Definition v83 : string := "x y".
Definition v84 : string := "back\slash".
Definition v85 : string := "sl/ash".
Definition v86 : string := "é".
Definition v87 : string := "中文".
Definition v88 : string := "null".
Definition v89 : string := "true".
Definition v90 : string := "false".
Definition v91 : string := "0".
Definition v92 : string := "1".
Definition v93 : string := "Classic".
Definition v94 : string := "classic ".
Definition v95 : string := "{}".
Definition v96 : string := "[1]".
Definition v97 : string := "ENHANCED".
Definition v98 : string := " enhanced".
Definition v99 : string := "5000".
Definition v100 : string := "1000".
Definition v101 : string := "stat".
Definition v102 : string := "Stats".
Definition v103 : string := "priority".
Definition v104 : string := "priority.window ".
Definition v105 : string := "sub-".
Definition v106 : string := "sub-00".
Definition v107 : string := "sub-0 ".
Definition v108 : string := "1.0".
Definition v109 : string := "2".
Definition v110 : string := "2.00".
Definition v111 : string := "2.0 ".
Definition v112 : string := " 2.0".
Definition v113 : string := "3.0".
Definition v114 : string := "2.1".
Definition v115 : string := "zz".
Definition v116 : string := "aa".
Definition v117 : string := "extra".
Definition v118 : string := "Jsonrpc".
Definition v119 : string := "ID".
Definition v120 : string := "method ".
Definition v121 : string := "param".
Definition v122 : string := "x".
Definition v123 : string := "k".
Definition v124 : string := "zzz".
Definition v125 : string := "b".
Definition v126 : string := "MODE".
Definition v127 : string := "ENABLED".
Definition v128 : string := "MS".
Definition v129 : string := "TOPIC".
Definition v130 : string := "SUBSCRIPTION_ID".
Definition v131 : string := "mode ".
Definition v132 : string := "enabled ".
Definition v133 : string := "ms ".
Definition v134 : string := "topic ".
Definition v135 : string := "subscription_id ".
Definition v136 : string := "s".
(* vocabulary: END *)
(** digest of an error message / data string that is not in the vocabulary *)
Definition D (n : Z) : string := String.append "~" (NilZero.string_of_uint (N.to_uint (Z.to_N n))).

(** implementation observation of one line; [Same]: both entry points gave literally the same *)
Inductive cobs := Same (o : obs1) | Ob2 (a b : obs1).
Definition expand (c : cobs) : obs :=
  match c with Same o => Ob o o | Ob2 a b => Ob a b end.

(** ---- concurrent runs: several threads dispatch their programs on ONE shared configuration
    (stdin entry, no stats provider, no critical window) while reader threads take snapshots.
    What must hold whatever the interleaving (clauses 64+n: response clause n; 80 a status shows
    a value nobody stored; 81 a snapshot shows a value nobody stored or a timeout outside
    1000..60000; 82 the final value of a field is not the last write of any thread; 83 a
    thread's own write to a field nobody else writes is not visible in its later status). *)
Definition settings_of (p : list line_outcome) : list setting :=
  flat_map (fun l => match spec_setting l with Some s => [s] | None => [] end) p.

Definition modes_in (ss : list setting) : list mode := flat_map (fun s => match s with SMode m => [m] | _ => [] end) ss.
Definition quals_in (ss : list setting) : list bool := flat_map (fun s => match s with SQuality b => [b] | _ => [] end) ss.
Definition stalls_in (ss : list setting) : list bool := flat_map (fun s => match s with SStall b => [b] | _ => [] end) ss.
Definition tmos_in (ss : list setting) : list Z := flat_map (fun s => match s with STimeout z => [z] | _ => [] end) ss.

Definition cfg_allowed (c0 : config) (ss : list setting) (c : config) : bool :=
  existsb (mode_eqb (c_mode c)) (c_mode c0 :: modes_in ss) &&
  existsb (Bool.eqb (c_quality c)) (c_quality c0 :: quals_in ss) &&
  existsb (Bool.eqb (c_stall c)) (c_stall c0 :: stalls_in ss) &&
  existsb (Z.eqb (c_timeout c)) (c_timeout c0 :: tmos_in ss) &&
  (c_mif c =? c_mif c0) && (c_stale c =? c_stale c0) && in_timeout_range c.

Definition json_in (o : option json) (l : list json) : bool :=
  match o with Some x => existsb (json_eqb x) l | None => false end.
Definition status_allowed (c0 : config) (ss : list setting) (v : json) : bool :=
  json_in (vget v "mode") (map (fun m => JStr (mode_str m)) (c_mode c0 :: modes_in ss)) &&
  json_in (vget v "quality_enabled") (map JBool (c_quality c0 :: quals_in ss)) &&
  json_in (vget v "stall_deselect") (map JBool (c_stall c0 :: stalls_in ss)) &&
  json_in (vget v "conn_timeout_ms") (map JInt (c_timeout c0 :: tmos_in ss)) &&
  json_in (vget v "stall_min_in_flight") [JInt (c_mif c0)] &&
  json_in (vget v "stall_ack_stale_ms") [JInt (c_stale c0)].

Definition last_opt {A} (l : list A) : option A := match rev l with x :: _ => Some x | [] => None end.
Definition lasts {A} (sel : list setting -> list A) (progs : list (list line_outcome)) : list A :=
  flat_map (fun p => match last_opt (sel (settings_of p)) with Some x => [x] | None => [] end) progs.
Definition final_field {A} (eqb : A -> A -> bool) (init final : A) (ls : list A) : bool :=
  match ls with [] => eqb final init | _ => existsb (eqb final) ls end.
Definition final_ok (c0 : config) (progs : list (list line_outcome)) (c : config) : bool :=
  final_field mode_eqb (c_mode c0) (c_mode c) (lasts modes_in progs) &&
  final_field Bool.eqb (c_quality c0) (c_quality c) (lasts quals_in progs) &&
  final_field Bool.eqb (c_stall c0) (c_stall c) (lasts stalls_in progs) &&
  final_field Z.eqb (c_timeout c0) (c_timeout c) (lasts tmos_in progs) &&
  (c_mif c =? c_mif c0) && (c_stale c =? c_stale c0).

(** tracker of one thread, restricted to the fields no other thread writes *)
Definition is_nil {A} (l : list A) : bool := match l with [] => true | _ => false end.
Definition own_start (c0 : config) (others : list setting) : tracked :=
  {| tk_mode := if is_nil (modes_in others) then Some (c_mode c0) else None;
     tk_quality := if is_nil (quals_in others) then Some (c_quality c0) else None;
     tk_stall := if is_nil (stalls_in others) then Some (c_stall c0) else None;
     tk_timeout := if is_nil (tmos_in others) then Some (c_timeout c0) else None |}.
Definition own_track (others : list setting) (t : tracked) (s : option setting) : tracked :=
  match s with
  | Some (SMode _) => if is_nil (modes_in others) then track t s else t
  | Some (SQuality _) => if is_nil (quals_in others) then track t s else t
  | Some (SStall _) => if is_nil (stalls_in others) then track t s else t
  | Some (STimeout _) => if is_nil (tmos_in others) then track t s else t
  | None => t
  end.

Definition result_of_resp (r : option json) : option json :=
  match r with
  | Some x => match parse_response x with Some (_, RResult v) => Some v | _ => None end
  | None => None
  end.

Fixpoint mon_thread (c0 : config) (all others : list setting) (t : tracked)
         (prog : list line_outcome) (resps : list (option json)) : N :=
  match prog, resps with
  | [], [] => 0%N
  | l :: prog', r :: resps' =>
      match mon_response Stdin l tracked_none r with
      | 0%N =>
          let t' := own_track others t (spec_setting l) in
          let st := match spec_method l, result_of_resp r with
                    | Some (me, _), Some v =>
                        if String.eqb me "get_status" then
                          if negb (status_allowed c0 all v) then 80%N
                          else if negb (status_shows t' v) then 83%N else 0%N
                        else 0%N
                    | _, _ => 0%N
                    end in
          match st with 0%N => mon_thread c0 all others t' prog' resps' | n => n end
      | n => (64 + n)%N
      end
  | _, _ => 15%N
  end.

Fixpoint mon_threads (c0 : config) (all : list setting) (before after : list (list line_outcome))
         (resps : list (list (option json))) : N :=
  match after, resps with
  | [], [] => 0%N
  | p :: after', r :: resps' =>
      let others := flat_map settings_of (before ++ after')%list in
      match mon_thread c0 all others (own_start c0 others) p r with
      | 0%N => mon_threads c0 all (before ++ [p])%list after' resps'
      | n => n
      end
  | _, _ => 15%N
  end.

Definition mon_conc (c0 : config) (progs : list (list line_outcome)) (resps : list (list (option json)))
           (panicked : bool) (seen : list config) (final : config) : N :=
  if panicked then 1%N
  else if negb (in_timeout_range c0) then 7%N
  else
    let all := flat_map settings_of progs in
    match mon_threads c0 all [] progs resps with
    | 0%N =>
        if negb (forallb (cfg_allowed c0 all) seen) then 81%N
        else if negb (cfg_allowed c0 all final && final_ok c0 progs final) then 82%N else 0%N
    | n => n
    end.

(** schedule-independent part of the model: the answer to every line that does not read the status *)
Fixpoint conc_corr (c0 : config) (prog : list line_outcome) (resps : list (option json)) : bool :=
  match prog, resps with
  | [], [] => true
  | l :: prog', r :: resps' =>
      (if reads_status l then true
       else match fst (dispatch c0 (Env NoStats None) l) with
            | Done m => resp_eqv (option_map render m) r
            | Panic => false
            end) && conc_corr c0 prog' resps'
  | _, _ => false
  end.

Inductive case :=
| CSeq (i : init) (ctx : bool) (ops : list op) (snap0 : option config) (cimpl : list cobs)
| CConc (i : init) (snap0 : config) (progs : list (list line_outcome)) (resps : list (list (option json)))
        (panicked : bool) (seen : list config) (final : config)
(** three clients, each the only writer of one setting, [rounds] acknowledged sets each, every set read
    back through get_status and snapshot(): [lost] = sets the writer itself could not see (clause 83),
    [bad] = well-formed sets that were not acknowledged with a result (clause 84).  In the atomic-store
    model ([C18_conc_loads_were_stored], [C18_conc_last_store_wins]) both are necessarily zero. *)
| CRace (rounds : Z) (lost : list Z) (bad : list Z)
(** the REAL Unix control socket (src/control_socket.rs): the same non-subscription request lines are
    written to a live socket in a few arbitrary chunks (several lines per write, writes ending mid-line)
    and fed one by one to the stdin dispatcher on a twin configuration; [stdin] / [sock] are the response
    lines of either side in order, [snaps_equal] whether both configurations end in the same snapshot.
    Clause 85: the socket does not answer what stdin answers (a request with an id got no response or a
    different one); clause 86: a line was applied on one side only. *)
| CSock (stdin sock : list json) (snaps_equal : bool).

Fixpoint resp_same_list (a b : list json) : bool :=
  match a, b with
  | [], [] => true
  | x :: a', y :: b' => resp_eqv (Some x) (Some y) && resp_same_list a' b'
  | _, _ => false
  end.

Definition check_case (c : case) : N :=
  match c with
  | CSeq i ctx ops snap0 cimpl =>
      let impl := map expand cimpl in
      let m := run i ctx ops in
      let d0 := if opt_eqb cfg_eqb (tr_snap0 m) snap0 then first_diff (tr_steps m) impl 0 else 1%N in
      let lens := (List.length impl =? List.length ops)%nat in
      let mon := match snap0 with
                 | None => 1%N
                 | Some _ => if lens then mon_C18 ctx {| tr_snap0 := snap0; tr_steps := combine ops impl |} else 15%N
                 end in
      match mon with
      | 0%N => if (d0 =? 0)%N then 0%N else (1 + 4 * (1000 + d0))%N
      | n => ((if (d0 =? 0)%N then 0 else 1) + 2 + 4 * n)%N
      end
  | CConc i snap0 progs resps panicked seen final =>
      let corr := opt_eqb cfg_eqb (cfg_init i) (Some snap0) &&
                  (List.length progs =? List.length resps)%nat &&
                  forallb (fun pr => conc_corr snap0 (fst pr) (snd pr)) (combine progs resps) in
      let mon := mon_conc snap0 progs resps panicked seen final in
      match mon with
      | 0%N => if corr then 0%N else (1 + 4 * 2000)%N
      | n => ((if corr then 0 else 1) + 2 + 4 * n)%N
      end
  | CRace rounds lost bad =>
      if negb (forallb (Z.eqb 0) lost) then (1 + 2 + 4 * 83)%N
      else if negb (forallb (Z.eqb 0) bad) then (1 + 2 + 4 * 84)%N else 0%N
  | CSock a b eqs =>
      if negb (resp_same_list a b) then (1 + 2 + 4 * 85)%N
      else if negb eqs then (1 + 2 + 4 * 86)%N else 0%N
  end.

(** case files are written with string literals; keep this last *)
Global Open Scope string_scope.
