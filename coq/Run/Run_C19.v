(** Run_C19.v — case type, runner, monitor and [check_case] for C19
    "IP-list reload never strands the stream and never disturbs survivors".

    A case = the probe sequence numbers, the op list (with the oracle inputs read
    from the real run) and the observation the harness made after every op.
    [check_case] = bit0 (model trace <> implementation trace, or the
    [IpAddr::from_str] oracle contradicts the dotted-quad parser) + bit1 (the
    property, clause by clause, fails on the implementation's own before/after
    snapshots); value / 4 = the clause (with bit1) or the first differing step. *)
From Srtla Require Import Base Constants.
From Srtla Require Export Reload.

(** ---- equality of observations ---- *)
Definition link_eqb (a b : link) : bool :=
  (l_lab a =? l_lab b) && (l_ip a =? l_ip b) && (l_id a =? l_id b) && zlist_eqb (l_st a) (l_st b).
Definition links_eqb := list_eqb link_eqb.
(** hash-map contents compared as finite maps (the harness dumps them key-sorted) *)
Definition io_same (a b : iomap) : bool :=
  Nat.eqb (length a) (length b) && forallb (fun p => ozeqb (io_get (fst p) b) (Some (snd p))) a.
Definition set_same (a b : list Z) : bool :=
  Nat.eqb (length a) (length b) && forallb (fun x => mem x b) a.
Definition snap_eqb (a b : snap) : bool :=
  links_eqb (s_links a) (s_links b) && io_same (s_io a) (s_io b) && ozeqb (s_sel a) (s_sel b) &&
  opt_eqb zlist_eqb (s_pend a) (s_pend b) && list_eqb ozeqb (s_trk a) (s_trk b) &&
  set_same (s_alive a) (s_alive b).
Definition refusal_eqb (a b : refusal) : bool :=
  match a, b with
  | RNotFound, RNotFound => true
  | REmpty, REmpty => true
  | RNoValid x, RNoValid y => x =? y
  | _, _ => false
  end.
Definition analysis_eqb (a b : analysis) : bool :=
  match a, b with
  | AApply l f, AApply l' f' => zlist_eqb l l' && ozeqb f f'
  | ARefuse r, ARefuse r' => refusal_eqb r r'
  | _, _ => false
  end.
Definition obs_eqb (a b : obs) : bool :=
  match a, b with
  | ObsNone, ObsNone => true
  | ObsStep r att b0 a0, ObsStep r' att' b1 a1 =>
    opt_eqb analysis_eqb r r' && zlist_eqb att att' && snap_eqb b0 b1 && snap_eqb a0 a1
  | _, _ => false
  end.

(** ---- the monitor: the clauses of the property text over before/after snapshots ---- *)
Definition chk (b : bool) (code rest : N) : N := if b then rest else code.
Definition is_none {A} (o : option A) : bool := match o with None => true | Some _ => false end.
Fixpoint nodupb (l : list Z) : bool :=
  match l with [] => true | x :: t => negb (mem x t) && nodupb t end.
Fixpoint forallb2 {A} (f : A -> A -> bool) (l1 l2 : list A) : bool :=
  match l1, l2 with
  | [], [] => true
  | x :: t, y :: u => f x y && forallb2 f t u
  | _, _ => false
  end.

(** a NAK-attribution record (one probed lookup) before / after an apply *)
Definition trk_pair_ok (gone_ids : list Z) (b a : option Z) : bool :=
  match b with
  | Some id => if mem id gone_ids then is_none a      (* record of a removed uplink: gone *)
               else ozeqb a (Some id)                   (* record of a survivor: intact *)
  | None => true
  end.

(** Applying the list [D] (sockets for the addresses in [fail] could not be created):
    1 every uplink whose address remains is kept, same order, identical record
    2 ... with the same socket
    3 an uplink no longer listed is gone, and so is its I/O handle
    4 ... and its NAK-attribution records; records of survivors are intact
    5 each new address is added exactly once, nothing else is added
    6 the previous routing choice is forgotten whenever an uplink was removed *)
Definition mon_apply (D fail : list addr) (B A : snap) : N :=
  let kept := filter (keep D) (s_links B) in
  let gone_ids := map l_id (filter (fun c => negb (keep D c)) (s_links B)) in
  let nk := length kept in
  let a_new := skipn nk (s_links A) in
  let old_labs := map l_lab (s_links B) in
  chk (links_eqb (firstn nk (s_links A)) kept) 1
 (chk (forallb (fun c => ozeqb (io_get (l_id c) (s_io A)) (io_get (l_id c) (s_io B))) kept) 2
 (chk (forallb (fun id => negb (mem id (map l_id (s_links A))) && is_none (io_get id (s_io A)))
               gone_ids) 3
 (chk (forallb2 (trk_pair_ok gone_ids) (s_trk B) (s_trk A)) 4
 (chk (nodupb (map l_lab a_new) &&
       forallb (fun c => mem (l_lab c) D && negb (mem (l_lab c) old_labs)) a_new &&
       forallb (fun a => mem a old_labs || mem a fail || mem a (map l_lab a_new)) D) 5
 (chk (match gone_ids with [] => true | _ => is_none (s_sel A) end) 6 0))))).

(** "the parsable lines in order", stated by map/filter over the lines *)
Definition spec_ips (o : orc) (text : list Z) : list addr :=
  flat_map (fun l => match trim l with
                     | [] => []
                     | tr => match orc_get o tr with Some a => [a] | None => [] end
                     end) (lines text).

(** 7 a reload whose file is missing, empty or without a parsable address is refused
      and leaves everything untouched;  8 otherwise the list handed to the apply step
      is exactly the parsable lines in order *)
Definition mon_sighup (file : option (list Z)) (o : orc) (r : option analysis) (B A : snap) : N :=
  match (match file with None => [] | Some t => spec_ips o t end) with
  | [] => chk (match r with Some (ARefuse _) => true | _ => false end && snap_eqb A B) 7 0
  | ips => chk (match r with Some (AApply l _) => zlist_eqb l ips | _ => false end &&
                opt_eqb zlist_eqb (s_pend A) (Some ips)) 8 0
  end.

(** the housekeeping tick applies what was queued; with nothing queued (e.g. after a
    refused reload) every uplink stays untouched *)
Definition mon_tick (fail : list addr) (B A : snap) : N :=
  match s_pend B with
  | None => chk (snap_eqb A B) 7 0
  | Some D => mon_apply D fail B A
  end.

Definition mon_step (o : op) (ob : obs) : N :=
  match o, ob with
  | OSighup file oc _, ObsStep r _ B A => mon_sighup file oc r B A
  | OTick fail _ _, ObsStep _ _ B A => mon_tick fail B A
  | OApply ips fail _ _, ObsStep _ _ B A => mon_apply ips fail B A
  | OCreate _ _ _ _, ObsStep _ _ _ _ => 0
  | ORoute _ _ _ _, ObsNone => 0
  | OTouch _ _, ObsNone => 0
  | OReconn _ _, ObsNone => 0
  | _, _ => 9
  end%N.

Definition ok_C19 (tr : list (op * obs)) : bool :=
  forallb (fun p => (mon_step (fst p) (snd p) =? 0)%N) tr.

(** ---- cases ---- *)
Record case := { c_probes : list Z; c_ops : list op; c_impl : list obs }.

Fixpoint first_nonzero (l : list N) : N :=
  match l with
  | [] => 0
  | x :: t => if (x =? 0)%N then first_nonzero t else x
  end%N.

Definition bit (b : bool) (n : N) : N := if b then n else 0%N.

Definition check_case (c : case) : N :=
  let m := run (c_probes c) (c_ops c) in
  let bad := first_bad (fun p => obs_eqb (snd (fst p)) (snd p)) (combine m (c_impl c)) 0 in
  let lenok := Nat.eqb (length (c_impl c)) (length (c_ops c)) in
  let orc_ok := forallb (fun o => match o with OSighup _ oc _ => orc_v4_ok oc | _ => true end)
                        (c_ops c) in
  let corr := (bad =? 0)%N && lenok && orc_ok in
  let mon := first_nonzero (map (fun p => mon_step (fst p) (snd p)) (combine (c_ops c) (c_impl c))) in
  if (mon =? 0)%N then
    (if corr then 0 else 1 + 4 * (if orc_ok then (if lenok then bad else 998) else 999))%N
  else (bit (negb corr) 1 + 2 + 4 * mon)%N.
