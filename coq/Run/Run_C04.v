(** Run_C04.v — cases, runner and monitor for C04 "Stream data is only ever routed onto
    eligible uplinks".  One case = one REAL call of [handle_srt_packet] (session
    established) on real links in an arbitrary state: the links before, the inputs of the
    decision, the links afterwards, the link whose queue received the unique copy. *)
From Coq Require Export Floats.
From Srtla Require Import Base Constants FConstants Stall StallSel StallOps Run_Stall.
From Srtla Require Export Stall StallSel Route.
Local Open Scope Z_scope.

Record dcase := mkCase {
  r_cfg : config; r_last : option Z; r_now : Z; r_ins : list selin;
  r_critical : bool; r_pkt : pkt;
  r_pre : list link;            (* real links before the call *)
  r_post : list link;           (* real links after the call *)
  r_routed : option Z           (* last_selected_idx if some queue grew, else None *)
}.

(** the override as it stands in the source today applies the eligibility filter *)
Definition FILTERED : bool := true.

Definition queued_of (l : link) : Z := x_queued (lx l).

(** "not timed out" is judged against the CONFIGURED liveness window of the decision
    ([cf_ctimeout], run-time tunable) as well as against the copy the link carries
    ([c_ctimeout], what [is_timed_out] reads): a decision that routes by a stale per-link copy
    onto a link that the configured window already declares timed out is a violation. *)
Definition eligible_cfg (cfg : config) (now : Z) (l : link) : bool :=
  eligible now l && negb (is_timed_out (la l) (cf_ctimeout cfg) now).

(** clause numbers: 1 the unique copy went to an ineligible uplink (registering / timed out /
    stall-gated), 2 another uplink's queue grew although it is not a gated+connected probe
    target (or the packet is not data), 3 nothing routed but a queue grew, 4 shape *)
Fixpoint others_ok (routed : option Z) (data : bool) (pre post : list link) (i : Z) : bool :=
  match pre, post with
  | [], [] => true
  | a :: pre', b :: post' =>
    (if opt_eqb Z.eqb routed (Some i) then true
     else if queued_of a <? queued_of b
          then data && g_gated (lg b) && a_conn (la b) &&
               match routed with Some _ => true | None => false end
          else true) && others_ok routed data pre' post' (i + 1)
  | _, _ => false
  end.

Definition mon_C04 (c : dcase) : N :=
  if negb (Nat.eqb (length (r_pre c)) (length (r_post c))) then 4%N else
  match r_routed c with
  | Some k =>
    match nthZ (r_post c) k with
    | Some l => if negb (eligible_cfg (r_cfg c) (r_now c) l) then 1%N
                else if others_ok (Some k) (p_data (r_pkt c)) (r_pre c) (r_post c) 0 then 0%N else 2%N
    | None => 4%N
    end
  | None => if others_ok None (p_data (r_pkt c)) (r_pre c) (r_post c) 0 then 0%N else 3%N
  end.

(** ---- fault histories on real sockets (second case kind) ----------------------------------
    A history of REAL event-loop arms on links with real loopback sockets, every client
    datagram entering with the session established: [handle_srt_packet], the flush tick
    [flush_all_batches], and the faults of the property's quantifier (soft reset
    [mark_for_recovery], re-connection [reconnect_uplink], re-registration).  After every step
    the harness counts the stream-data datagrams that reached each uplink's receiver socket. *)
Record fstep := mkFS {
  fs_kind : Z;              (* 0 client datagram, 1 flush tick, 2 soft reset, 3 reconnect, 4 REG3, 5 idle time,
                               6 REG_ERR from the receiver on one uplink (its queue flushed first) *)
  fs_pre_conn : list bool;  (* connected flag of every link BEFORE the step *)
  fs_tx : list Z;           (* stream-data datagrams that reached each link's receiver during the step *)
  fs_queue : list Z         (* queue depth of every link after the step *)
}.

(** clause 5: an uplink that is registering (not connected since its last reset) put stream data
    on the wire.  It is not a probe target either (probes go to connected, gated links). *)
Fixpoint tx_while_down (pre : list bool) (tx : list Z) : bool :=
  match pre, tx with
  | c :: pre', n :: tx' => (negb c && (0 <? n)) || tx_while_down pre' tx'
  | _, _ => false
  end.

Fixpoint mon_fault (steps : list fstep) : N :=
  match steps with
  | [] => 0%N
  | st :: rest => if tx_while_down (fs_pre_conn st) (fs_tx st) then 5%N else mon_fault rest
  end.

(** the abstract queue model behind clause 5 (used only by the theorem C04_fault_model_holds: the
    implementation's fault traces are judged by [mon_fault] directly, there is no model-vs-
    implementation comparison for this case kind) *)
Inductive fop :=
| FClient (sel : option nat) (flushed : bool)   (* routed to [sel]; the size threshold flushed it or not *)
| FFlush
| FSoftReset (i : nat) | FReconnect (i : nat) | FReg3 (i : nat) | FIdle.

Definition flink := (bool * Z)%type.     (* connected, queued stream datagrams *)

Fixpoint fupd (i : nat) (f : flink -> flink) (s : list flink) {struct s} : list flink :=
  match s, i with
  | [], _ => []
  | x :: t, O => f x :: t
  | x :: t, S k => x :: fupd k f t
  end.

Definition fop_kind (o : fop) : Z :=
  match o with FClient _ _ => 0 | FFlush => 1 | FSoftReset _ => 2 | FReconnect _ => 3 | FReg3 _ => 4 | FIdle => 5 end.

(** one step: new state and what each link transmitted *)
Definition fstep_model (s : list flink) (o : fop) : list flink * list Z :=
  match o with
  | FClient (Some k) flushed =>
      let s1 := fupd k (fun l => (fst l, snd l + 1)) s in
      if flushed
      then (fupd k (fun l => (fst l, 0)) s1,
            map (fun p => if Nat.eqb (fst p) k then snd (snd p) else 0) (combine (seq 0 (length s1)) s1))
      else (s1, map (fun _ => 0) s1)
  | FClient None _ => (s, map (fun _ => 0) s)
  | FFlush => (map (fun l => (fst l, 0)) s, map snd s)
  | FSoftReset i | FReconnect i => (fupd i (fun _ => (false, 0)) s, map (fun _ => 0) s)
  | FReg3 i => (fupd i (fun l => (true, 0)) s, map (fun _ => 0) s)     (* clear_pre_registration_state *)
  | FIdle => (s, map (fun _ => 0) s)
  end.

Fixpoint ftrace (s : list flink) (ops : list fop) : list fstep :=
  match ops with
  | [] => []
  | o :: t => let '(s', tx) := fstep_model s o in
              mkFS (fop_kind o) (map fst s) tx (map snd s') :: ftrace s' t
  end.

Inductive case := CDec (c : dcase) | CFault (steps : list fstep).

Definition check_case (c4 : case) : N :=
  match c4 with
  | CFault steps => let cl := mon_fault steps in ((if (cl =? 0)%N then 0 else 2) + 4 * cl)%N
  | CDec c =>
  let '(ls', routed) := handle FILTERED (r_cfg c) (r_last c) (r_now c) (r_ins c) (r_critical c) (r_pkt c) (r_pre c) in
  let corr := links_eqb ls' (r_post c) && opt_eqb Z.eqb routed (r_routed c) in
  let cl := mon_C04 c in
  ((if corr then 0 else 1) + (if (cl =? 0)%N then 0 else 2) + 4 * cl)%N
  end.
