(** Run_C04.v — cases, runner and monitor for C04 "Stream data is only ever routed onto
    eligible uplinks".  One case = one REAL call of [handle_srt_packet] (session
    established) on real links in an arbitrary state: the links before, the inputs of the
    decision, the links afterwards, the link whose queue received the unique copy. *)
From Coq Require Export Floats.
From Srtla Require Import Base Constants FConstants Stall StallSel StallOps Run_Stall.
From Srtla Require Export Stall StallSel Route.
Local Open Scope Z_scope.

Record case := mkCase {
  r_cfg : config; r_last : option Z; r_now : Z; r_ins : list selin;
  r_critical : bool; r_pkt : pkt;
  r_pre : list link;            (* real links before the call *)
  r_post : list link;           (* real links after the call *)
  r_routed : option Z           (* last_selected_idx if some queue grew, else None *)
}.

(** the override as it stands in the source today applies the eligibility filter *)
Definition FILTERED : bool := true.

Definition queued_of (l : link) : Z := x_queued (lx l).

(** "not timed out" is judged against the CONFIGURED liveness window of the decision
    ([cf_ctimeout], run-time tunable) as well as against the copy the link carries
    ([c_ctimeout], what [is_timed_out] reads): a decision that routes by a stale per-link copy
    onto a link that the configured window already declares timed out is a violation. *)
Definition eligible_cfg (cfg : config) (now : Z) (l : link) : bool :=
  eligible now l && negb (is_timed_out (la l) (cf_ctimeout cfg) now).

(** clause numbers: 1 the unique copy went to an ineligible uplink (registering / timed out /
    stall-gated), 2 another uplink's queue grew although it is not a gated+connected probe
    target (or the packet is not data), 3 nothing routed but a queue grew, 4 shape *)
Fixpoint others_ok (routed : option Z) (data : bool) (pre post : list link) (i : Z) : bool :=
  match pre, post with
  | [], [] => true
  | a :: pre', b :: post' =>
    (if opt_eqb Z.eqb routed (Some i) then true
     else if queued_of a <? queued_of b
          then data && g_gated (lg b) && a_conn (la b) &&
               match routed with Some _ => true | None => false end
          else true) && others_ok routed data pre' post' (i + 1)
  | _, _ => false
  end.

Definition mon_C04 (c : case) : N :=
  if negb (Nat.eqb (length (r_pre c)) (length (r_post c))) then 4%N else
  match r_routed c with
  | Some k =>
    match nthZ (r_post c) k with
    | Some l => if negb (eligible_cfg (r_cfg c) (r_now c) l) then 1%N
                else if others_ok (Some k) (p_data (r_pkt c)) (r_pre c) (r_post c) 0 then 0%N else 2%N
    | None => 4%N
    end
  | None => if others_ok None (p_data (r_pkt c)) (r_pre c) (r_post c) 0 then 0%N else 3%N
  end.

Definition check_case (c : case) : N :=
  let '(ls', routed) := handle FILTERED (r_cfg c) (r_last c) (r_now c) (r_ins c) (r_critical c) (r_pkt c) (r_pre c) in
  let corr := links_eqb ls' (r_post c) && opt_eqb Z.eqb routed (r_routed c) in
  let cl := mon_C04 c in
  ((if corr then 0 else 1) + (if (cl =? 0)%N then 0 else 2) + 4 * cl)%N.
