(** Run_C08.v — case type, runner, monitor driver and [check_case] for C08
    "Failed uplinks are detected, retried forever, and rejoin cleanly".

    A case is: number of links, creation time, and for every op the observation the
    harness read from the real code after it (per-link fields, shell/manager fields,
    handshake datagrams captured on each link's receiver-side socket).
    [check_case] = bit0 (model <> implementation) + bit1 (the implementation's own trace
    violates the property text) + 4 * detail + 1024 * step. *)
From Srtla Require Import Base Constants.
From Srtla Require Export Reconnect ReconShell ReconStep Mon_C08.
Local Open Scope Z_scope.

(** A case crosses in delta form: after each op only the links whose observation changed
    and only the non-empty wires are listed; [expand] rebuilds the full observations. *)
Record dstp := DS { d_op : op; d_links : list (nat * lobs); d_glob : option gobs; d_wire : list (nat * list Z) }.
Inductive case := Case (n : nat) (t0 : Z) (steps : list dstp).

Fixpoint patch {A} (prev : list A) (ds : list (nat * A)) : list A :=
  match ds with
  | [] => prev
  | (i, q) :: r => patch (upd i (fun _ => q) prev) r
  end.

(** ---- observation of a model state ---- *)
Definition oz (o : option Z) : Z := match o with Some x => x | None => -1 end.
Definition on_ (o : option nat) : Z := match o with Some x => Z.of_nat x | None => -1 end.

Definition ph_code (p : phase) : Z := match p with PReg => 0 | PWarm _ _ => 1 | PLive => 2 | PDeg => 3 end.
Definition ph_probes (p : phase) : Z := match p with PWarm n _ => n | _ => 0 end.
Definition ph_entered (p : phase) : Z := match p with PWarm _ e => e | _ => 0 end.

Definition obs_link (l : link) : lobs :=
  LO (l_conn l) (oz (l_lr l)) (l_to l) (r_last (l_rc l)) (r_fail (l_rc l)) (r_est (l_rc l)) (r_grace (l_rc l))
     (ph_code (l_ph l)) (ph_probes (l_ph l)) (ph_entered (l_ph l))
     (l_win l) (l_inf l) (l_gen l)
     (p_gated (l_pen l)) (p_weak (l_pen l)) (p_backoff (l_pen l)) (p_lossdeg (l_pen l)).

Definition obs_glob (s : state) (err : bool) : gobs :=
  let g := rg s in
  GO (on_ (g_pend g)) (g_pto g) (g_active g) (g_hasconn g) (g_bcast g) (on_ (g_target g)) (g_next g)
     (is_probing g) (on_ (lastsel s)) (oz (allfail s)) err (cfg_to s) (cfg_classic s).

Definition obs_step (x : op * out * state) : stp :=
  let '(o, w, s) := x in SP o (map obs_link (links s)) (obs_glob s (o_err w)) (o_wire w).

(** the model's own trace in the implementation's format *)
Definition trace (n : nat) (t0 : Z) (ops : list op) : list stp := map obs_step (run n t0 ops).

Fixpoint expand (n : nat) (prev : list lobs) (pg : gobs) (l : list dstp) : list stp :=
  match l with
  | [] => []
  | d :: r => let cur := patch prev (d_links d) in
              let g := match d_glob d with Some g => g | None => pg end in
              SP (d_op d) cur g (patch (repeat [] n) (d_wire d)) :: expand n cur g r
  end.
Definition steps_of (c : case) : list stp :=
  let 'Case n t0 ds := c in
  expand n (repeat (obs_link (link0 t0)) n) (obs_glob (init n t0) false) ds.

(** ---- monitor driver ---- *)
Definition ml0 (t0 : Z) : mlink := ML (obs_link (link0 t0)) false false false true true None false false 0 None false.

Fixpoint mon_links (o : op) (cfg : Z) (pb : bool) (i : nat) (ms : list mlink) (qs : list lobs) (ws : list (list Z))
  : list (N * mlink) :=
  match ms, qs with
  | m :: mt, q :: qt => mon_link o cfg pb i m q (hd [] ws) :: mon_links o cfg pb (S i) mt qt (tl ws)
  | _, _ => []
  end.

(** clause 4: housekeeping gives up (error) only when no uplink is alive: a connected
    link heard from within the configured timeout keeps the stream going *)
Definition c_survivors (o : op) (cfg : Z) (ms : list mlink) (g : gobs) : bool :=
  match o with
  | OTick now _ _ _ =>
    negb (q_err g && existsb (fun m => let p := m_prev m in
                                       b_conn p && negb (b_lr p =? -1) && (now - b_lr p <? cfg)) ms)
  | _ => true
  end.

Fixpoint first_code (l : list N) : N :=
  match l with [] => 0%N | c :: t => if (c =? 0)%N then first_code t else c end.

Record mstate := MS { ms_links : list mlink; ms_cfg : Z; ms_probing : bool }.
Definition ms0 (n : nat) (t0 : Z) : mstate := MS (repeat (ml0 t0) n) CONN_TIMEOUT_MS false.

(** one step: the codes raised (per link, then the global clause) and the new bookkeeping.
    The configured timeout (and the probing flag) the clauses use are the ones in force
    *before* the op. *)
Definition mon_step (ms : mstate) (st : stp) : list N * mstate :=
  let rs := mon_links (s_op st) (ms_cfg ms) (ms_probing ms) O (ms_links ms) (s_links st) (s_wire st) in
  let cg : N := if c_survivors (s_op st) (ms_cfg ms) (ms_links ms) (s_glob st) then 0%N else 4%N in
  (map fst rs ++ [cg], MS (map snd rs) (q_cfg (s_glob st)) (q_probing (s_glob st))).

Fixpoint mon_codes (ms : mstate) (tr : list stp) : list (list N) :=
  match tr with
  | [] => []
  | st :: r => let '(cs, ms') := mon_step ms st in cs :: mon_codes ms' r
  end.

Definition core_ok (c : N) : bool := (c =? 0)%N || (c =? 7)%N.

(** the property, except the clause that is only partially provable (7: the 30 s rejoin
    bound — liveness under environment assumptions) *)
Definition ok_C08 (n : nat) (t0 : Z) (tr : list stp) : bool :=
  forallb (forallb core_ok) (mon_codes (ms0 n t0) tr).
Definition ok_C08_bound (n : nat) (t0 : Z) (tr : list stp) : bool :=
  forallb (forallb (fun c => negb (c =? 7)%N)) (mon_codes (ms0 n t0) tr).

(** first failing clause and its 1-based step *)
Fixpoint first_fail (css : list (list N)) (k : N) : N * N :=
  match css with
  | [] => (0%N, 0%N)
  | cs :: r => let c := first_code cs in if (c =? 0)%N then first_fail r (k + 1)%N else (c, (k + 1)%N)
  end.

(** ---- correspondence ---- *)
Definition lobs_eqb (a b : lobs) : bool :=
  Bool.eqb (b_conn a) (b_conn b) && (b_lr a =? b_lr b) && (b_to a =? b_to b) && (b_last a =? b_last b) &&
  (b_fail a =? b_fail b) && (b_est a =? b_est b) && (b_grace a =? b_grace b) && (b_ph a =? b_ph b) &&
  (b_probes a =? b_probes b) && (b_entered a =? b_entered b) && (b_win a =? b_win b) && (b_inf a =? b_inf b) &&
  (b_gen a =? b_gen b) && Bool.eqb (b_gated a) (b_gated b) && Bool.eqb (b_weak a) (b_weak b) &&
  Bool.eqb (b_backoff a) (b_backoff b) && Bool.eqb (b_lossdeg a) (b_lossdeg b).
Definition gobs_eqb (a b : gobs) : bool :=
  (q_pend a =? q_pend b) && (q_pto a =? q_pto b) && (q_active a =? q_active b) &&
  Bool.eqb (q_hasconn a) (q_hasconn b) && Bool.eqb (q_bcast a) (q_bcast b) && (q_target a =? q_target b) &&
  (q_next a =? q_next b) && Bool.eqb (q_probing a) (q_probing b) && (q_lastsel a =? q_lastsel b) &&
  (q_allfail a =? q_allfail b) && Bool.eqb (q_err a) (q_err b) && (q_cfg a =? q_cfg b) &&
  Bool.eqb (q_classic a) (q_classic b).
Definition stp_eqb (a b : stp) : bool :=
  list_eqb lobs_eqb (s_links a) (s_links b) && gobs_eqb (s_glob a) (s_glob b) &&
  list_eqb zlist_eqb (s_wire a) (s_wire b).

Fixpoint first_diff (a b : list stp) (k : N) : N :=
  match a, b with
  | [], [] => 0%N
  | x :: a', y :: b' => if stp_eqb x y then first_diff a' b' (k + 1)%N else (k + 1)%N
  | _, _ => (k + 1)%N
  end.

(** well-formed op lists: clock readings are positive and never go backwards *)
Fixpoint wf_from (t : Z) (ops : list op) : bool :=
  match ops with
  | [] => true
  | o :: r => match op_time o with
              | Some x => (t <=? x) && wf_from x r
              | None => wf_from t r
              end
  end.
Definition wf_ops (t0 : Z) (ops : list op) : bool := (0 <? t0) && wf_from t0 ops.

(** detail: the failing clause (1..7) when the monitor fails on the implementation's
    trace; 16 when only the correspondence fails; 31 for an ill-formed case.
    step (value / 1024): first failing step of the monitor, else first differing step. *)
Definition check_case (c : case) : N :=
  let 'Case n t0 _ := c in
  let steps := steps_of c in
  let ops := map s_op steps in
  if negb (wf_ops t0 ops) then (1 + 4 * 31)%N else
  let d := first_diff (trace n t0 ops) steps 0 in
  let '(v, vk) := first_fail (mon_codes (ms0 n t0) steps) 0 in
  let b0 := if (d =? 0)%N then 0%N else 1%N in
  let b1 := if (v =? 0)%N then 0%N else 2%N in
  let detail := if (v =? 0)%N then (if (d =? 0)%N then 0%N else 16%N) else v in
  let step := if (v =? 0)%N then d else vk in
  (b0 + b1 + 4 * detail + 1024 * step)%N.
