(** Run_C06.v — monitor for C06 "Congestion windows stay in range and move in the
    right direction", over the implementation's observed trace. *)
From Srtla Require Import Base Constants Conn.
From Srtla Require Export Conn Run_Core.

Definition is_nak_op (o : op) : bool := match o with ONak _ _ | OCcNak _ _ => true | _ => false end.
Definition is_ack_or_recovery_op (o : op) : bool :=
  match o with OSrtAck _ _ | OSrtlaAck _ _ _ _ | OCcAck _ _ _ | OGlobal _ | ORecovery _ _ _ => true | _ => false end.
(** teardown for recovery / reconnect of link i: window must return to the default *)
Definition is_teardown_of (o : op) (i : nat) : bool :=
  match o with OMarkRecovery k | OResetReconnect k => Nat.eqb k i | _ => false end.
(** "link reset" for the fast-recovery clause: reconnect reset or the REG3 state clear *)
Definition is_flag_reset_of (o : op) (i : nat) : bool :=
  match o with OResetReconnect k | OReg3 k _ => Nat.eqb k i | _ => false end.
Definition is_setup_op (o : op) : bool := match o with OSetWindow _ _ => true | _ => false end.

(** clause numbers: 1 range, 2 teardown->default, 3 NAK never raises, 4 ACK/recovery never lowers,
    5 fast-recovery entered only by a NAK ending at <= 2000, 6 left only at >= 12000 or reset,
    7 initial window = 20000, 8 shape changed *)
Definition c06_link (o : op) (i : nat) (p n : lobs) : N :=
  first_clause
    [(1%N, (1000 <=? o_window n) && (o_window n <=? 60000));
     (2%N, if is_teardown_of o i then o_window n =? 20000 else true);
     (3%N, if is_nak_op o then o_window n <=? o_window p else true);
     (4%N, if is_ack_or_recovery_op o then o_window p <=? o_window n else true);
     (5%N, if negb (o_fast p) && o_fast n then is_nak_op o && (o_window n <=? 2000) else true);
     (6%N, if o_fast p && negb (o_fast n) then (12000 <=? o_window n) || is_flag_reset_of o i else true)].

Fixpoint c06_links (o : op) (i : nat) (p n : obs) : N :=
  match p, n with
  | [], [] => 0%N
  | x :: p', y :: n' => let c := c06_link o i x y in if (c =? 0)%N then c06_links o (S i) p' n' else c
  | _, _ => 8%N
  end.

Definition mon_C06 : monitor unit :=
  {| m_init := fun _ ob => (tt, if forallb (fun l => o_window l =? 20000) ob then 0%N else 7%N);
     m_step := fun _ o p n => (tt, c06_links o O p n) |}.

(** Cases of C06: a core history, or one REAL housekeeping pass ([CHk classic before after],
    the flat list of (window, fast-recovery flag) per link before and after the pass, every
    link alive).  Clause 9: in classic mode a housekeeping pass changes no window (no time-based
    recovery); in every mode the range and direction clauses hold. *)
Inductive case6 := CCore (c : case) | CHk (classic : bool) (before after : list Z).

Fixpoint hk_ok (classic : bool) (b a : list Z) : bool :=
  match b, a with
  | [], [] => true
  | w :: f :: b', w' :: f' :: a' =>
    (1000 <=? w') && (w' <=? 60000) && (w <=? w') &&
    (if classic then (w' =? w) && (f' =? f) else true) &&
    (if (f =? 1) && (f' =? 0) then 12000 <=? w' else true) &&
    (if (f =? 0) && (f' =? 1) then false else true) && hk_ok classic b' a'
  | _, _ => false
  end.
(** the model of a classic pass over alive links: nothing in the accounting view moves *)
Definition hk_model (classic : bool) (b : list Z) : option (list Z) := if classic then Some b else None.

Definition check_case (c : case6) : N :=
  match c with
  | CCore c => check_with mon_C06 c
  | CHk classic b a =>
    ((match hk_model classic b with Some m => if zlist_eqb m a then 0 else 1 | None => 0 end) +
     (if hk_ok classic b a then 0 else 2 + 4 * 9))%N
  end.
Notation case := case6.
