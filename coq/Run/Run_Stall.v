(** Run_Stall.v — shared case format and correspondence evaluator of the stall-guard
    family (C12, C13).  A case = initial dump of the real links, then for every op the
    implementation's observation: the touched link after an environment op, all links
    after a routing decision, and the decision(s).  The observation of a link *is* a
    [link] record (every modelled field is read from the real [SrtlaConnection]). *)
From Coq Require Import Floats.
From Srtla Require Import Base Constants FConstants Stall StallSel StallOps.
Local Open Scope Z_scope.

(** bit-level equality of two binary64 values (structural, on [Prim2SF]; NaNs are equal) *)
Definition sf_eqb (a b : SpecFloat.spec_float) : bool :=
  match a, b with
  | SpecFloat.S754_zero s, SpecFloat.S754_zero t => Bool.eqb s t
  | SpecFloat.S754_infinity s, SpecFloat.S754_infinity t => Bool.eqb s t
  | SpecFloat.S754_nan, SpecFloat.S754_nan => true
  | SpecFloat.S754_finite s m e, SpecFloat.S754_finite t n f => Bool.eqb s t && Pos.eqb m n && (e =? f)
  | _, _ => false
  end.
Definition feqb (a b : float) : bool := sf_eqb (Prim2SF a) (Prim2SF b).

Definition acct_eqb (a b : acct) : bool :=
  Bool.eqb (a_conn a) (a_conn b) && (a_window a =? a_window b) && (a_inflight a =? a_inflight b) &&
  (a_logn a =? a_logn b) && ozeqb (a_lastrecv a) (a_lastrecv b) && ozeqb (a_lastsent a) (a_lastsent b) &&
  ozeqb (a_lastka a) (a_lastka b) && (a_proof a =? a_proof b) && (a_naks a =? a_naks b) &&
  (a_burst a =? a_burst b) && (a_phase a =? a_phase b) && (a_estab a =? a_estab b) &&
  (a_grace a =? a_grace b) && (a_rclast a =? a_rclast b) && (a_rcfail a =? a_rcfail b) &&
  zlist_eqb (a_rest a) (a_rest b).

Definition guard_eqb (a b : guard) : bool :=
  Bool.eqb (g_gated a) (g_gated b) && (g_latched a =? g_latched b) && (g_recovery a =? g_recovery b) &&
  (g_events a =? g_events b) && (g_probe a =? g_probe b) && Bool.eqb (g_pulled a) (g_pulled b) &&
  (g_pulls a =? g_pulls b).

Definition aux_eqb (a b : aux) : bool :=
  (x_queued a =? x_queued b) && Bool.eqb (x_weak a) (x_weak b) && Bool.eqb (x_lossdeg a) (x_lossdeg b) &&
  (x_cctarget a =? x_cctarget b) && feqb (x_bitrate a) (x_bitrate b) &&
  Bool.eqb (x_rttpos a) (x_rttpos b) && (x_rttms a =? x_rttms b).

Definition cache_eqb (a b : cache) : bool :=
  (c_ctimeout a =? c_ctimeout b) && feqb (c_qmult a) (c_qmult b) && (c_qcalc a =? c_qcalc b).

Definition link_eqb (a b : link) : bool :=
  acct_eqb (la a) (la b) && guard_eqb (lg a) (lg b) && aux_eqb (lx a) (lx b) && cache_eqb (lc a) (lc b).
Definition links_eqb := list_eqb link_eqb.

(** An observed link: in full, or "accounting and aux fields exactly as last observed"
    plus the guard and cache fields (keeps the case text small). *)
Inductive lobs := LF (l : link) | LS (g : guard) (c : cache).

(** (op, observation, decisions): decisions = [] for environment ops,
    [idx] for a decision, [idx; idx on the history-free twin] when the twin was run *)
Definition istep := (op * list lobs * list (option Z))%type.
Record case := mkCase { c_init : list link; c_steps : list istep }.

Definition resolve (p : link) (o : lobs) : link :=
  match o with LF l => l | LS g c => mkL (la p) g (lx p) c end.

Fixpoint resolve_all (prev : state) (ob : list lobs) : state :=
  match prev, ob with
  | p :: pt, o :: ot => resolve p o :: resolve_all pt ot
  | _, _ => []
  end.

(** ---- the implementation's own trace (pre / post state of every op) ---------------- *)
Definition impl_post (prev : state) (o : op) (ob : list lobs) : state :=
  match op_target o with
  | None => resolve_all prev ob
  | Some i => match ob with
              | [x] => if i <? 0 then prev else upd_nth (Z.to_nat i) (fun p => resolve p x) prev
              | _ => prev          (* [] = unobserved (a foreign sync reported just before its op) *)
              end
  end.

(** each step with the twin's decision, if any *)
Fixpoint impl_trace (prev : state) (steps : list istep) : list (tstep * option (option Z)) :=
  match steps with
  | [] => []
  | (o, ob, rs) :: t =>
    let post := impl_post prev o ob in
    (mkT o prev post (hd None rs), nth_error rs 1) :: impl_trace post t
  end.

(** ---- correspondence: model vs implementation, first diverging step (1-based) ------ *)
Definition observed (o : op) (ob : list lobs) : bool :=
  match op_target o, ob with Some _, [] => false | _, _ => true end.

Definition res_matches (o : op) (r : option Z) (rs : list (option Z)) : bool :=
  match o with
  | OSelect _ _ _ _ => match rs with x :: _ => ozeqb r x | [] => false end
  | _ => true
  end.

(** [s] = model state, [p] = implementation state as observed so far *)
Fixpoint run_corr (s p : state) (steps : list istep) (k : N) : N :=
  match steps with
  | [] => 0%N
  | (o, ob, rs) :: t =>
    let '(s', r) := step s o in
    let p' := impl_post p o ob in
    if (negb (observed o ob) || links_eqb s' p') && res_matches o r rs
    then run_corr s' p' t (k + 1)%N else (k + 1)%N
  end.

(** result word: bit0 model<>impl, bit1 monitor fails, 4*clause, 1024*step *)
Definition verdict_word (cbad : N) (clause mstep : N) : N :=
  let cf := negb (cbad =? 0)%N in
  let mf := negb (clause =? 0)%N in
  ((if cf then 1 else 0) + (if mf then 2 else 0) + 4 * clause + 1024 * (if mf then mstep else cbad))%N.

Fixpoint first_clause (l : list (N * bool)) : N :=
  match l with
  | [] => 0%N
  | (n, ok) :: t => if ok then first_clause t else n
  end.
