(** Run_C07.v — case type, model runner, monitor and [check_case] for C07
    "Registration handshake follows the two-phase SRTLA protocol".

    A case = number of uplinks, the two random ids (as tags), whether the run starts with a
    probing round, the events, and what the real code (handle_uplink_packet /
    handle_housekeeping over loopback sockets, the real manager) showed after each one:
    the registration packets captured per uplink and the accessor-visible manager state.

    [check_case] = bit0 (model trace <> implementation trace)
                 + bit1 (the monitor [mon_run] fails on the implementation's own trace)
                 + 4 * detail (bit1: number of the failing clause, see [mon_step];
                               bit0 only: 1000 + index of the first differing step). *)
From Srtla Require Export Base Constants Reg.

(** what is visible after an event *)
Record obs := Ob {
  o_out : list pkt;        (* REG1/REG2 datagrams captured, grouped by uplink *)
  o_id : Z;                (* srtla_id (tag) *)
  o_pending : option Z;    (* pending_reg2_idx() *)
  o_ptimeout : Z;          (* pending_timeout_at_ms() *)
  o_active : Z;            (* active_connections() *)
  o_hasconn : bool;        (* has_connected() *)
  o_flag : bool;           (* broadcast_reg2_pending() *)
  o_target : option Z;     (* reg1_target_idx() *)
  o_next : Z;              (* reg1_next_send_at_ms() *)
  o_probing : bool;        (* is_probing() *)
  o_nprobes : Z;           (* probe_results_count() *)
  o_conn : list bool       (* connected, per uplink *)
}.

Definition obs_of (s : st) (out : list pkt) : obs :=
  let r := s_reg s in
  Ob out (r_id r) (r_pending r) (r_ptimeout r) (r_active r)
     (r_hasconn r) (r_flag r) (r_target r) (r_next r) (is_probing r) (blen (r_probes r)) (s_conn s).

Fixpoint run_from (fx : bool) (s : st) (ops : list op) : list obs :=
  match ops with
  | [] => []
  | o :: t => let '(s', out) := step fx s o in obs_of s' out :: run_from fx s' t
  end.

(** the model's trace: the observation after start-up, then one per event *)
Definition run (fx : bool) (n id0 pid : Z) (probe_at : option Z) (ops : list op) : obs * list obs :=
  let '(s0, out0) := start n id0 pid probe_at in
  (obs_of s0 out0, run_from fx s0 ops).

(** ---- equality of observations ---- *)
Definition pkt_eqb (a b : pkt) : bool :=
  (pk_kind a =? pk_kind b) && (pk_dst a =? pk_dst b) && (pk_id a =? pk_id b).
(** The model lists a step's packets in the order the code sends them; the harness sees them
    per receiving uplink.  Both are compared grouped by uplink (order kept within an uplink);
    every clause of the monitor below is insensitive to the order across uplinks. *)
Definition canon (k : nat) (l : list pkt) : list pkt := by_dst k 0 l.
Definition obs_eqb (a b : obs) : bool :=
  list_eqb pkt_eqb (canon (length (o_conn a)) (o_out a)) (o_out b) && (o_id a =? o_id b) && ozeqb (o_pending a) (o_pending b) &&
  (o_ptimeout a =? o_ptimeout b) && (o_active a =? o_active b) && Bool.eqb (o_hasconn a) (o_hasconn b) &&
  Bool.eqb (o_flag a) (o_flag b) && ozeqb (o_target a) (o_target b) && (o_next a =? o_next b) &&
  Bool.eqb (o_probing a) (o_probing b) && (o_nprobes a =? o_nprobes b) &&
  list_eqb Bool.eqb (o_conn a) (o_conn b).

(** ---- the monitor: the property text, clause by clause, over an observed trace ----

    It keeps three facts of its own, derived only from the events and the captured packets:
    - [g_out]: the uplink on which a REG1 is outstanding and when it was last transmitted.
      A REG1 stays outstanding until it is answered (REG2 accepted), cancelled (REG_ERR) or a
      driver tick finds it [TEXT_TIMEOUT_MS] = 4 s old;
    - [g_owed]: an id was adopted and its broadcast round has not happened yet;
    - [g_free]: the last attempt ended by timeout and no REG1 went out since. *)
Record ghost := G { g_out : option (Z * Z); g_owed : bool; g_free : bool }.

Definition op_now (o : op) : Z :=
  match o with Ngp _ t | Reg2 _ _ _ t | Reg3 _ t | RegErr _ t | Tick t _ _ => t end.
Definition is_tick (o : op) : bool := match o with Tick _ _ _ => true | _ => false end.
Definition is_regerr (o : op) : bool := match o with RegErr _ _ => true | _ => false end.
Definition is_reg2 (o : op) : bool := match o with Reg2 _ _ _ _ => true | _ => false end.
Definition reg1_dsts (l : list pkt) : list Z := map pk_dst (filter (fun p => pk_kind p =? K_REG1) l).
Definition reg2_count (l : list pkt) (i : Z) : Z :=
  blen (filter (fun p => (pk_kind p =? K_REG2) && (pk_dst p =? i)) l).
Definition none_connected (l : list bool) : bool := forallb negb l.
Definition out_on (g : option (Z * Z)) (j : Z) : bool :=
  match g with Some (k, _) => k =? j | None => false end.

Fixpoint range_all (k : nat) (i : Z) (f : Z -> bool) : bool :=
  match k with O => true | S k' => f i && range_all k' (i + 1) f end.
Fixpoint conn_ok (i : Z) (pre post : list bool) (reg3_on : option Z) : bool :=
  match pre, post with
  | a :: pre', b :: post' =>
    (negb b || a || opt_is reg3_on i) && conn_ok (i + 1) pre' post' reg3_on
  | [], [] => true
  | _, _ => false
  end.

(** One step. Result: 0 = all clauses hold, else the number of the first clause that fails:
    1 a REG1 goes to uplink j while a REG1 is outstanding on another uplink (or two REG1 at once)
    2 the driver / the immediate answer to REG_NGP emits a REG1 while some uplink is connected
      (re-transmitting the outstanding REG1 on its own uplink from a tick is not a new attempt)
    3 a REG2 is accepted (pending cleared by it) although it is not from the REG1 uplink, or is
      shorter than 2+256 bytes, or the id adopted is not the one it carries; or the id changes
      at any other moment
    4 REG2 rounds: an adopted id is broadcast to every uplink by the next tick, once; no REG2
      goes out otherwise (a tick may in addition re-send one REG2 to an uplink it is resetting)
    5 a REG1 / registration REG2 carries something else than the currently adopted id
    6 an uplink becomes connected on anything but a REG3 received on it
    7 a pending attempt survives a REG_ERR
    8 a REG1 unanswered for 4 s is still pending after a tick
    9 after such a timeout, with no uplink connected, a REG_NGP is not answered by a new REG1 *)
(** "the 4 s timeout" of the property text, as a literal: if the code's constant moves away
    from it, the monitor keeps judging by the text. *)
Definition TEXT_TIMEOUT_MS : Z := 4000.

Definition expired (g : ghost) (o : op) : bool :=
  match o, g_out g with
  | Tick t _ _, Some (_, t0) => t0 + TEXT_TIMEOUT_MS <=? t
  | _, _ => false
  end.
(** what is outstanding once this step's timeout (if any) has taken effect *)
Definition out1 (g : ghost) (o : op) : option (Z * Z) := if expired g o then None else g_out g.
Definition accepted (pre : obs) (o : op) (post : obs) : bool :=
  is_reg2 o && is_some (o_pending pre) && is_none (o_pending post).
Definition no_reg1 (post : obs) : bool := match reg1_dsts (o_out post) with [] => true | _ => false end.

Definition cl1 (g : ghost) (o : op) (post : obs) : bool :=
  match reg1_dsts (o_out post) with
  | [] => true
  | [j] => match out1 g o with None => true | Some (k, _) => k =? j end
  | _ => false
  end.
Definition cl2 (g : ghost) (o : op) (post : obs) : bool :=
  forallb (fun j => (is_tick o && out_on (out1 g o) j) || none_connected (o_conn post))
          (reg1_dsts (o_out post)).
Definition cl3 (g : ghost) (pre : obs) (o : op) (post : obs) : bool :=
  if accepted pre o post
  then match o with
       | Reg2 i len tag _ => out_on (out1 g o) i && (REG2_MIN_LEN <=? len) && (o_id post =? tag)
       | _ => false
       end
  else o_id post =? o_id pre.
Definition cl4 (n : Z) (g : ghost) (o : op) (post : obs) : bool :=
  match o with
  | Tick _ _ due =>
    range_all (Z.to_nat n) 0 (fun i =>
      let c := reg2_count (o_out post) i in
      let d := if memz i due then 1 else 0 in
      if g_owed g then (1 <=? c) && (c <=? 1 + d) else c <=? d)
  | _ => forallb (fun p => negb (pk_kind p =? K_REG2)) (o_out post)
  end.
Definition cl5 (post : obs) : bool :=
  forallb (fun p => ((pk_kind p =? K_REG1) || (pk_kind p =? K_REG2)) && (pk_id p =? o_id post))
          (o_out post).
Definition cl6 (pre : obs) (o : op) (post : obs) : bool :=
  conn_ok 0 (o_conn pre) (o_conn post) (match o with Reg3 i _ => Some i | _ => None end).
Definition cl7 (o : op) (post : obs) : bool := negb (is_regerr o) || is_none (o_pending post).
Definition cl8 (g : ghost) (o : op) (post : obs) : bool :=
  negb (expired g o) || negb (no_reg1 post) || is_none (o_pending post).
Definition cl9 (g : ghost) (pre : obs) (o : op) (post : obs) : bool :=
  match o with
  | Ngp j _ =>
    negb (g_free g && is_none (out1 g o) && (o_active pre =? 0) && none_connected (o_conn pre)
          && negb (o_probing pre))
    || list_eqb Z.eqb (reg1_dsts (o_out post)) [j]
  | _ => true
  end.

Definition clauses (n : Z) (g : ghost) (pre : obs) (o : op) (post : obs) : list bool :=
  [cl1 g o post; cl2 g o post; cl3 g pre o post; cl4 n g o post; cl5 post; cl6 pre o post;
   cl7 o post; cl8 g o post; cl9 g pre o post].

Definition ghost_next (g : ghost) (pre : obs) (o : op) (post : obs) : ghost :=
  G (match reg1_dsts (o_out post) with
     | j :: _ => Some (j, op_now o)
     | [] => if accepted pre o post || is_regerr o then None else out1 g o
     end)
    (if is_tick o then false else g_owed g || accepted pre o post)
    (match reg1_dsts (o_out post) with
     | _ :: _ => false
     | [] => if expired g o then true else g_free g
     end).

Definition mon_step (n : Z) (g : ghost) (pre : obs) (o : op) (post : obs) : N * ghost :=
  (first_bad (fun b : bool => b) (clauses n g pre o post) 0, ghost_next g pre o post).

Fixpoint mon_run (n : Z) (g : ghost) (pre : obs) (ops : list op) (tr : list obs) : N :=
  match ops, tr with
  | o :: ops', post :: tr' =>
    let '(c, g') := mon_step n g pre o post in
    if (c =? 0)%N then mon_run n g' post ops' tr' else c
  | _, _ => 0%N
  end.

(** nothing is outstanding or owed when the sender starts *)
Definition g0 : ghost := G None false false.

Definition mon_C07 (n : Z) (ops : list op) (tr : obs * list obs) : N :=
  mon_run n g0 (fst tr) ops (snd tr).
Definition ok_C07 (n : Z) (ops : list op) (tr : obs * list obs) : bool := (mon_C07 n ops tr =? 0)%N.

(** ---- cases ---- *)
Record case := C {
  c_n : Z; c_id0 : Z; c_pid : Z; c_probe : option Z;
  c_ops : list op;
  c_obs0 : obs;            (* implementation, after start-up *)
  c_impl : list obs        (* implementation, after each event *)
}.

(** the events the property quantifies over: uplink indices of the run, clock values of a u64 *)
Definition wf_opb (n : Z) (o : op) : bool :=
  match o with
  | Ngp i t | Reg3 i t | RegErr i t | Reg2 i _ _ t => in_range n i && (0 <=? t)
  | Tick t _ _ => 0 <=? t
  end.
Definition wf_ops (n : Z) (ops : list op) : bool := (0 <=? n) && forallb (wf_opb n) ops.

Fixpoint first_diff (a b : list obs) (i : N) : N :=
  match a, b with
  | [], [] => 0%N
  | x :: a', y :: b' => if obs_eqb x y then first_diff a' b' (i + 1)%N else (i + 1)%N
  | _, _ => (i + 1)%N
  end.

Definition check_case (c : case) : N :=
  let '(m0, mtr) := run true (c_n c) (c_id0 c) (c_pid c) (c_probe c) (c_ops c) in
  let d := if obs_eqb m0 (c_obs0 c) then first_diff mtr (c_impl c) 1 else 1%N in
  let lens := (length (c_impl c) =? length (c_ops c))%nat && wf_ops (c_n c) (c_ops c) in
  let m := if lens then mon_C07 (c_n c) (c_ops c) (c_obs0 c, c_impl c) else 15%N in
  if (m =? 0)%N then (if (d =? 0)%N then 0 else 1 + 4 * (1000 + d))%N
  else ((if (d =? 0)%N then 0 else 1) + 2 + 4 * m)%N.
