(** Run_C07.v — case type, model runner, monitor and [check_case] for C07
    "Registration handshake follows the two-phase SRTLA protocol".

    A case = number of uplinks, the two random ids (as tags), whether the run starts with a
    probing round, the events, and what the real code (handle_uplink_packet /
    handle_housekeeping over loopback sockets, the real manager) showed after each one:
    the registration packets captured per uplink and the accessor-visible manager state.

    [check_case] = bit0 (model trace <> implementation trace)
                 + bit1 (the monitor [mon_run] fails on the implementation's own trace)
                 + 4 * detail (bit1: number of the failing clause, see [mon_step];
                               bit0 only: 1000 + index of the first differing step). *)
From Srtla Require Export Base Constants Reg.

(** what is visible after an event *)
Record obs := Ob {
  o_out : list pkt;        (* REG1/REG2 datagrams captured, grouped by uplink *)
  o_id : Z;                (* srtla_id (tag) *)
  o_pending : option Z;    (* pending_reg2_idx() *)
  o_ptimeout : Z;          (* pending_timeout_at_ms() *)
  o_active : Z;            (* active_connections() *)
  o_hasconn : bool;        (* has_connected() *)
  o_flag : bool;           (* broadcast_reg2_pending() *)
  o_target : option Z;     (* reg1_target_idx() *)
  o_next : Z;              (* reg1_next_send_at_ms() *)
  o_probing : bool;        (* is_probing() *)
  o_nprobes : Z;           (* probe_results_count() *)
  o_conn : list bool       (* connected, per uplink *)
}.

Definition obs_of (s : st) (out : list pkt) : obs :=
  let r := s_reg s in
  Ob (by_dst (length (s_conn s)) 0 out) (r_id r) (r_pending r) (r_ptimeout r) (r_active r)
    (r_hasconn r) (r_flag r) (r_target r) (r_next r) (is_probing r) (blen (r_probes r)) (s_conn s).

Fixpoint run_from (fx : bool) (s : st) (ops : list op) : list obs :=
  match ops with
  | [] => []
  | o :: t => let '(s', out) := step fx s o in obs_of s' out :: run_from fx s' t
  end.

(** the model's trace: the observation after start-up, then one per event *)
Definition run (fx : bool) (n id0 pid : Z) (probe_at : option Z) (ops : list op) : obs * list obs :=
  let '(s0, out0) := start n id0 pid probe_at in
  (obs_of s0 out0, run_from fx s0 ops).

(** ---- equality of observations ---- *)
Definition pkt_eqb (a b : pkt) : bool :=
  (pk_kind a =? pk_kind b) && (pk_dst a =? pk_dst b) && (pk_id a =? pk_id b).
Definition obs_eqb (a b : obs) : bool :=
  list_eqb pkt_eqb (o_out a) (o_out b) && (o_id a =? o_id b) && ozeqb (o_pending a) (o_pending b) &&
  (o_ptimeout a =? o_ptimeout b) && (o_active a =? o_active b) && Bool.eqb (o_hasconn a) (o_hasconn b) &&
  Bool.eqb (o_flag a) (o_flag b) && ozeqb (o_target a) (o_target b) && (o_next a =? o_next b) &&
  Bool.eqb (o_probing a) (o_probing b) && (o_nprobes a =? o_nprobes b) &&
  list_eqb Bool.eqb (o_conn a) (o_conn b).

(** ---- the monitor: the property text, clause by clause, over an observed trace ----

    It keeps three facts of its own, derived only from the events and the captured packets:
    - [g_out]: the uplink on which a REG1 is outstanding and when it was last transmitted.
      A REG1 stays outstanding until it is answered (REG2 accepted), cancelled (REG_ERR) or a
      driver tick finds it [REG2_WAIT_MS] = 4 s old;
    - [g_owed]: an id was adopted and its broadcast round has not happened yet;
    - [g_free]: the last attempt ended by timeout and no REG1 went out since. *)
Record ghost := G { g_out : option (Z * Z); g_owed : bool; g_free : bool }.

Definition op_now (o : op) : Z :=
  match o with Ngp _ t | Reg2 _ _ _ t | Reg3 _ t | RegErr _ t | Tick t _ _ => t end.
Definition is_tick (o : op) : bool := match o with Tick _ _ _ => true | _ => false end.
Definition is_regerr (o : op) : bool := match o with RegErr _ _ => true | _ => false end.
Definition is_reg2 (o : op) : bool := match o with Reg2 _ _ _ _ => true | _ => false end.
Definition reg1_dsts (l : list pkt) : list Z := map pk_dst (filter (fun p => pk_kind p =? K_REG1) l).
Definition reg2_count (l : list pkt) (i : Z) : Z :=
  blen (filter (fun p => (pk_kind p =? K_REG2) && (pk_dst p =? i)) l).
Definition none_connected (l : list bool) : bool := forallb negb l.
Definition out_on (g : option (Z * Z)) (j : Z) : bool :=
  match g with Some (k, _) => k =? j | None => false end.

Fixpoint range_all (k : nat) (i : Z) (f : Z -> bool) : bool :=
  match k with O => true | S k' => f i && range_all k' (i + 1) f end.
Fixpoint conn_ok (i : Z) (pre post : list bool) (reg3_on : option Z) : bool :=
  match pre, post with
  | a :: pre', b :: post' =>
    (negb b || a || opt_is reg3_on i) && conn_ok (i + 1) pre' post' reg3_on
  | [], [] => true
  | _, _ => false
  end.

(** One step. Result: 0 = all clauses hold, else the number of the first clause that fails:
    1 a REG1 goes to uplink j while a REG1 is outstanding on another uplink (or two REG1 at once)
    2 the driver / the immediate answer to REG_NGP emits a REG1 while some uplink is connected
      (re-transmitting the outstanding REG1 on its own uplink from a tick is not a new attempt)
    3 a REG2 is accepted (pending cleared by it) although it is not from the REG1 uplink, or is
      shorter than 2+256 bytes, or the id adopted is not the one it carries; or the id changes
      at any other moment
    4 REG2 rounds: an adopted id is broadcast to every uplink by the next tick, once; no REG2
      goes out otherwise (a tick may in addition re-send one REG2 to an uplink it is resetting)
    5 a REG1 / registration REG2 carries something else than the currently adopted id
    6 an uplink becomes connected on anything but a REG3 received on it
    7 a pending attempt survives a REG_ERR
    8 a REG1 unanswered for 4 s is still pending after a tick
    9 after such a timeout, with no uplink connected, a REG_NGP is not answered by a new REG1 *)
Definition mon_step (n : Z) (g : ghost) (pre : obs) (o : op) (post : obs) : N * ghost :=
  let now := op_now o in
  let expired := match o, g_out g with
                 | Tick t _ _, Some (_, t0) => t0 + REG2_WAIT_MS <=? t
                 | _, _ => false
                 end in
  let out1 := if expired then None else g_out g in
  let r1 := reg1_dsts (o_out post) in
  let accepted := is_reg2 o && is_some (o_pending pre) && is_none (o_pending post) in
  let c1 := match r1 with
            | [] => true
            | [j] => match out1 with None => true | Some (k, _) => k =? j end
            | _ => false
            end in
  let c2 := forallb (fun j => (is_tick o && out_on out1 j) || none_connected (o_conn post)) r1 in
  let c3 := if accepted
            then match o with
                 | Reg2 i len tag _ => out_on out1 i && (REG2_MIN_LEN <=? len) && (o_id post =? tag)
                 | _ => false
                 end
            else o_id post =? o_id pre in
  let c4 := match o with
            | Tick _ _ due =>
              range_all (Z.to_nat n) 0 (fun i =>
                let c := reg2_count (o_out post) i in
                let d := if memz i due then 1 else 0 in
                if g_owed g then (1 <=? c) && (c <=? 1 + d) else c <=? d)
            | _ => forallb (fun p => negb (pk_kind p =? K_REG2)) (o_out post)
            end in
  let c5 := forallb (fun p => ((pk_kind p =? K_REG1) || (pk_kind p =? K_REG2)) && (pk_id p =? o_id post))
                    (o_out post) in
  let c6 := conn_ok 0 (o_conn pre) (o_conn post)
                    (match o with Reg3 i _ => Some i | _ => None end) in
  let c7 := negb (is_regerr o) || is_none (o_pending post) in
  let c8 := negb expired || negb (match r1 with [] => true | _ => false end) || is_none (o_pending post) in
  let c9 := match o with
            | Ngp j _ =>
              negb (g_free g && is_none out1 && (o_active pre =? 0) && none_connected (o_conn pre)
                    && negb (o_probing pre))
              || list_eqb Z.eqb r1 [j]
            | _ => true
            end in
  let code : N :=
    (if negb c1 then 1 else if negb c2 then 2 else if negb c3 then 3 else if negb c4 then 4
     else if negb c5 then 5 else if negb c6 then 6 else if negb c7 then 7 else if negb c8 then 8
     else if negb c9 then 9 else 0)%N in
  let out' := match r1 with
              | j :: _ => Some (j, now)
              | [] => if accepted || is_regerr o then None else out1
              end in
  let owed' := if is_tick o then false else g_owed g || accepted in
  let free' := match r1 with
               | _ :: _ => false
               | [] => if expired then true else g_free g
               end in
  (code, G out' owed' free').

Fixpoint mon_run (n : Z) (g : ghost) (pre : obs) (ops : list op) (tr : list obs) : N :=
  match ops, tr with
  | o :: ops', post :: tr' =>
    let '(c, g') := mon_step n g pre o post in
    if (c =? 0)%N then mon_run n g' post ops' tr' else c
  | _, _ => 0%N
  end.

(** nothing is outstanding or owed when the sender starts *)
Definition g0 : ghost := G None false false.

Definition mon_C07 (n : Z) (ops : list op) (tr : obs * list obs) : N :=
  mon_run n g0 (fst tr) ops (snd tr).
Definition ok_C07 (n : Z) (ops : list op) (tr : obs * list obs) : bool := (mon_C07 n ops tr =? 0)%N.

(** ---- cases ---- *)
Record case := C {
  c_n : Z; c_id0 : Z; c_pid : Z; c_probe : option Z;
  c_ops : list op;
  c_obs0 : obs;            (* implementation, after start-up *)
  c_impl : list obs        (* implementation, after each event *)
}.

Fixpoint first_diff (a b : list obs) (i : N) : N :=
  match a, b with
  | [], [] => 0%N
  | x :: a', y :: b' => if obs_eqb x y then first_diff a' b' (i + 1)%N else (i + 1)%N
  | _, _ => (i + 1)%N
  end.

Definition check_case (c : case) : N :=
  let '(m0, mtr) := run true (c_n c) (c_id0 c) (c_pid c) (c_probe c) (c_ops c) in
  let d := if obs_eqb m0 (c_obs0 c) then first_diff mtr (c_impl c) 1 else 1%N in
  let lens := (length (c_impl c) =? length (c_ops c))%nat in
  let m := if lens then mon_C07 (c_n c) (c_ops c) (c_obs0 c, c_impl c) else 15%N in
  if (m =? 0)%N then (if (d =? 0)%N then 0 else 1 + 4 * (1000 + d))%N
  else ((if (d =? 0)%N then 0 else 1) + 2 + 4 * m)%N.
