(** Run_C02.v — monitor for C02 "Per-link in-flight count equals packets sent and
    not yet retired": replays the abstract set specification of the property text
    next to the implementation's trace. *)
From Srtla Require Import Base Constants Conn.
From Srtla Require Export Conn Run_Core.

(** spec state: per link the set of outstanding sequence numbers (sorted, distinct) *)
Definition sset := list Z.
Definition s_add (x : Z) (s : sset) : sset := if existsb (Z.eqb x) s then s else insert_sorted x s.
Definition s_del (x : Z) (s : sset) : sset := filter (fun y => negb (y =? x)) s.
Definition s_mem (x : Z) (s : sset) : bool := existsb (Z.eqb x) s.

Fixpoint s_upd (i : nat) (f : sset -> sset) (l : list sset) : list sset :=
  match l, i with
  | [], _ => []
  | x :: t, O => f x :: t
  | x :: t, S k => x :: s_upd k f t
  end.

(** per-packet SRTLA ACK: arrival link if it holds the packet, otherwise ONE other holder
    (which one is not fixed by the property: the observed trace decides) *)
Fixpoint first_holder (seq : Z) (skip : nat) (i : nat) (l : list sset) : option nat :=
  match l with
  | [] => None
  | s :: t => if negb (Nat.eqb i skip) && s_mem seq s then Some i else first_holder seq skip (S i) t
  end.

(** which single link lost [seq] between two observations (None = none) *)
Fixpoint lost_on (seq : Z) (i : nat) (p n : obs) : list nat :=
  match p, n with
  | x :: p', y :: n' =>
    (if s_mem seq (o_keys x) && negb (s_mem seq (o_keys y)) then [i] else []) ++ lost_on seq (S i) p' n'
  | _, _ => []
  end.
Fixpoint charged_on (i : nat) (p n : obs) : list nat :=
  match p, n with
  | x :: p', y :: n' => (if o_nakcount x <? o_nakcount y then [i] else []) ++ charged_on (S i) p' n'
  | _, _ => []
  end.

Definition spec_step (sp : list sset) (o : op) (p n : obs) : list sset * bool :=
  match o with
  | ORegister i seq _ => (s_upd i (s_add seq) sp, true)
  | OSrtAck a _ => (map (filter (fun s => a <? s)) sp, true)
  | OSrtlaAck idx seq _ _ =>
    match nth_error sp idx with
    | Some s =>
      if s_mem seq s then (s_upd idx (s_del seq) sp, true)
      else
        (* exactly one other holder, if any holder exists *)
        match lost_on seq O p n with
        | [] => (sp, match first_holder seq idx O sp with None => true | Some _ => false end)
        | [j] => (s_upd j (s_del seq) sp,
                  negb (Nat.eqb j idx) && s_mem seq (nth j sp []))
        | _ => (sp, false)
        end
    | None => (sp, true)
    end
  | ONak seq _ =>
    (* retired on the link the NAK was charged to; at most one link is charged *)
    match charged_on O p n with
    | [] => (sp, true)
    | [j] => (s_upd j (s_del seq) sp, s_mem seq (nth j sp []))
    | _ => (sp, false)
    end
  | OMarkRecovery i | OResetReconnect i | OReg3 i _ => (s_upd i (fun _ => []) sp, true)
  | _ => (sp, true)
  end.

(** clauses: 1 spec step itself inconsistent with the trace (two holders retired, NAK charged twice, ...),
    2 in-flight <> |set|, 3 log keys <> set, 4 negative in-flight, 5 a link not holding the
    ACKed/NAKed number changed its log/in-flight, 6 initial state not empty *)
Definition c02_agree (sp : list sset) (n : obs) : N :=
  if negb (Nat.eqb (length sp) (length n)) then 2%N else
  first_clause
    [(2%N, forall2b (fun s l => o_inflight l =? blen s) sp n);
     (3%N, forall2b (fun s l => zlist_eqb (o_keys l) s) sp n);
     (4%N, forallb (fun l => 0 <=? o_inflight l) n)].

Definition foreign_untouched (o : op) (p n : obs) : bool :=
  match o with
  | OSrtlaAck _ seq _ _ | ONak seq _ =>
    forall2b (fun x y => if s_mem seq (o_keys x) then true
                         else zlist_eqb (o_keys x) (o_keys y) && (o_inflight x =? o_inflight y)) p n
  | _ => true
  end.

Definition mon_C02 : monitor (list sset) :=
  {| m_init := fun _ ob => (map (fun _ => []) ob, if forallb (fun l => (o_inflight l =? 0) && zlist_eqb (o_keys l) []) ob then 0%N else 6%N);
     m_step := fun sp o p n =>
       let '(sp', ok) := spec_step sp o p n in
       (sp', if negb ok then 1%N
             else let c := c02_agree sp' n in
                  if (c =? 0)%N then (if foreign_untouched o p n then 0%N else 5%N) else c) |}.

Definition check_case (c : case) : N := check_with mon_C02 c.
