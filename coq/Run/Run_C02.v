(** Run_C02.v — monitor for C02 "Per-link in-flight count equals packets sent and
    not yet retired".  The abstract state of the property is, per link, the SET of
    outstanding sequence numbers; it is read off the observed packet-log keys, and
    every op must move it exactly as the property text prescribes. *)
From Srtla Require Import Base Constants Conn.
From Srtla Require Export Conn Run_Core.

Definition sset := list Z.     (* strictly increasing *)
Definition s_mem (x : Z) (s : sset) : bool := existsb (Z.eqb x) s.
Definition s_add (x : Z) (s : sset) : sset := if s_mem x s then s else insert_sorted x s.
Definition s_del (x : Z) (s : sset) : sset := filter (fun y => negb (y =? x)) s.

Definition others_same (i : nat) (p n : obs) : bool :=
  forall_idx (fun k x y => Nat.eqb k i || zlist_eqb (o_keys x) (o_keys y)) O p n.
Definition all_same (p n : obs) : bool := forall2b (fun x y => zlist_eqb (o_keys x) (o_keys y)) p n.
Definition keys_at (i : nat) (o : obs) : sset := o_keys (nth i o ([], [])).
Fixpoint other_holder_from (seq : Z) (idx : nat) (i : nat) (l : obs) : bool :=
  match l with [] => false | x :: t => (negb (Nat.eqb i idx) && s_mem seq (o_keys x)) || other_holder_from seq idx (S i) t end.
Definition any_other_holder (seq : Z) (idx : nat) (p : obs) : bool := other_holder_from seq idx O p.

(** the retirement rules of the property text *)
Definition allowed (o : op) (p n : obs) : bool :=
  match o with
  | ORegister i seq _ =>
    others_same i p n && (if i <? length p then zlist_eqb (keys_at i n) (s_add seq (keys_at i p)) else true)%nat
  | OSrtAck a _ =>      (* cumulative ACK at or beyond it, on every link *)
    forall2b (fun x y => zlist_eqb (o_keys y) (filter (fun s => a <? s) (o_keys x))) p n
  | OSrtlaAck idx seq _ _ =>   (* arrival link if it holds it, otherwise ONE other holder *)
    if (idx <? length p)%nat then
      if s_mem seq (keys_at idx p) then
        others_same idx p n && zlist_eqb (keys_at idx n) (s_del seq (keys_at idx p))
      else
        (all_same p n && negb (any_other_holder seq idx p)) ||
        existsb (fun j => negb (Nat.eqb j idx) && s_mem seq (keys_at j p) && others_same j p n &&
                          zlist_eqb (keys_at j n) (s_del seq (keys_at j p))) (List.seq 0%nat (length p))
    else all_same p n
  | ONak seq _ =>               (* retired on the link the NAK is charged to, and only there *)
    all_same p n ||
    existsb (fun j => s_mem seq (keys_at j p) && others_same j p n &&
                      zlist_eqb (keys_at j n) (s_del seq (keys_at j p))) (List.seq 0%nat (length p))
  | OMarkRecovery i | OResetReconnect i | OReg3 i _ =>
    others_same i p n && (if i <? length p then zlist_eqb (keys_at i n) [] else true)%nat
  | _ => all_same p n
  end.

(** clauses: 1 set moved against the retirement rules, 2 in-flight <> |set|,
    4 negative in-flight, 6 initial state not empty, 8 shape changed *)
Definition mon_C02 : monitor unit :=
  {| m_init := fun _ ob => (tt, if forallb (fun l => (o_inflight l =? 0) && zlist_eqb (o_keys l) []) ob then 0%N else 6%N);
     m_step := fun _ o p n =>
       (tt, if negb (Nat.eqb (length p) (length n)) then 8%N
            else if negb (allowed o p n) then 1%N
            else if negb (forallb (fun l => o_inflight l =? blen (o_keys l)) n) then 2%N
            else if negb (forallb (fun l => 0 <=? o_inflight l) n) then 4%N else 0%N) |}.

Definition check_case (c : case) : N := check_with mon_C02 c.
