(** Run_C03.v — monitor and [check_case] for C03
    "No blackout: a usable uplink always gets the packet".

    The monitor [ok_C03] is the property text as a boolean over the observable trace of the
    implementation: it tracks the link set from what was loaded / updated and from the written
    fields the implementation reported after each select, and at every select asks:
    is some uplink usable (registered, connected, not timed out under the current timeout
    setting)?  then the scheduler must have returned an uplink (an index inside the set).
    It is written against the link record only — it does not call the selector model. *)
From Srtla Require Import Base Constants FConstants.
From Srtla Require Export Run_Sel.
Local Open Scope Z_scope.

(** Clause numbers (detail codes):
    1  a usable uplink exists but the scheduler returned None (blackout)
    2  a usable uplink exists and the scheduler returned an index outside the link set *)
Definition mon_select (s : list link) (now : Z) (cfg : config) (exps : list float) (o : sobs) : N :=
  if negb (forallb wf_linkb s && forallb exp_okb exps) then 0%N     (* outside the quantifier *)
  else if existsb (usable_spec now (c_timeout cfg)) s then
    match o_res o with
    | None => 1%N
    | Some i => if (i <? length s)%nat then 0%N else 2%N
    end
  else 0%N.

(** first failing clause and the 1-based op index where it failed; (0,0) = none *)
Fixpoint mon_from (s : list link) (tr : list event) (i : N) : N * N :=
  match tr with
  | [] => (0%N, 0%N)
  | ev :: r =>
      let c := match ev with
               | ES _ now cfg exps o => mon_select s now cfg exps o
               | _ => 0%N
               end in
      if (c =? 0)%N then mon_from (track s ev) r (i + 1)%N else (c, (i + 1)%N)
  end.

Definition ok_C03 (tr : list event) : bool := (fst (mon_from [] tr 0) =? 0)%N.

Definition check_case (c : case) : N :=
  let impl := impl_trace (c_ops c) (c_obs c) in
  let d := first_diff (run (c_ops c)) impl 0 in
  let '(v, vs) := mon_from [] impl 0 in
  verdict d v vs.
