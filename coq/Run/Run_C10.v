(** Run_C10.v — case format, runner and monitor for C10 "Classic mode reproduces the
    reference srtla_send algorithm".

    The monitor replays the *reference* (Model/ClassicRef.v, written from the property
    text) in lock-step on what the implementation was observed to do: before every op
    it re-bases on the observed state, asks the reference for the link / the windows,
    and compares with the observed outcome.  It never looks at Model/Classic.v. *)
From Coq Require Export Floats.
From Srtla Require Import Base Constants Conn Shape.
From Srtla Require Export Classic ClassicRef.

(** ---- observations ----
    per link: fast = [connected; registering; window; has last_received; last_received (0 if none);
                      established; grace deadline; batch size]
              slow = (sorted packet-log keys, queued seqs oldest first (-1 = None), quality multiplier) *)
Definition slow := (list Z * list Z * float)%type.
Definition lobs := (list Z * slow)%type.
(** full observation after a step: chosen link (-1 = none), datagrams on each wire, links *)
Definition fobs := (Z * list Z * list lobs)%type.
(** as written by the harness (constructor forms elaborate much faster than nested pairs):
    fast / slow parts only for the links where they changed *)
Inductive fdelta := FD (i : Z) (f : list Z).
Inductive sdelta := SD (i : Z) (keys queue : list Z) (q : float).
Inductive sstep := ST (o : xop) (ch : Z) (sent : list Z) (fl : list fdelta) (sl : list sdelta).
Inductive linit := LI (f keys queue : list Z) (q : float).

Fixpoint insert_sorted (x : Z) (l : list Z) : list Z :=
  match l with
  | [] => [x]
  | y :: t => if x <=? y then x :: l else y :: insert_sorted x t
  end.
Definition sort_z (l : list Z) : list Z := fold_right insert_sorted [] l.
Definition zb (b : bool) : Z := if b then 1 else 0.
Definition zo (o : option Z) : Z := match o with Some v => v | None => -1 end.
Definition zon (o : option nat) : Z := match o with Some v => Z.of_nat v | None => -1 end.

Definition obs_x (x : xlink) : lobs :=
  ([zb (connected (core x)); zb (registering x); window (core x);
    zb (match last_recv (core x) with Some _ => true | None => false end);
    match last_recv (core x) with Some v => v | None => 0 end;
    established x; grace x; bsize x],
   (sort_z (map fst (log (core x))), map (fun p => zo (fst p)) (queue x), qmult x)).
Definition obs_shell (s : shell) : list lobs := map obs_x (xs s).
Definition obs_step (ou : out) (s : shell) : fobs := (zon (fst ou), snd ou, obs_shell s).

Definition feqb (a b : float) : bool := PrimFloat.eqb a b || (PrimFloat.is_nan a && PrimFloat.is_nan b).
Definition slow_eqb (a b : slow) : bool :=
  zlist_eqb (fst (fst a)) (fst (fst b)) && zlist_eqb (snd (fst a)) (snd (fst b)) && feqb (snd a) (snd b).
Definition lobs_eqb (a b : lobs) : bool := zlist_eqb (fst a) (fst b) && slow_eqb (snd a) (snd b).
Definition fobs_eqb (a b : fobs) : bool :=
  (fst (fst a) =? fst (fst b)) && zlist_eqb (snd (fst a)) (snd (fst b)) && list_eqb lobs_eqb (snd a) (snd b).

(** ---- expansion of the harness's compact form ---- *)
Fixpoint find_f (i : Z) (l : list fdelta) : option (list Z) :=
  match l with
  | [] => None
  | FD k f :: t => if k =? i then Some f else find_f i t
  end.
Fixpoint find_s (i : Z) (l : list sdelta) : option slow :=
  match l with
  | [] => None
  | SD k ks qu q :: t => if k =? i then Some (ks, qu, q) else find_s i t
  end.
Fixpoint patch (fl : list fdelta) (sl : list sdelta) (i : Z) (prev : list lobs) : list lobs :=
  match prev with
  | [] => []
  | p :: pt =>
    (match find_f i fl with Some f => f | None => fst p end,
     match find_s i sl with Some s => s | None => snd p end) :: patch fl sl (i + 1) pt
  end.
Fixpoint expand (prev : list lobs) (steps : list sstep) : list (xop * fobs) :=
  match steps with
  | [] => []
  | ST o ch sent fl sl :: t =>
    let cur := patch fl sl 0 prev in (o, (ch, sent, cur)) :: expand cur t
  end.
Definition init_obs (l : list linit) : list lobs :=
  map (fun x => match x with LI f ks qu q => (f, (ks, qu, q)) end) l.

Record case := { c_n : nat; c_grace : Z; c_init : list linit; c_steps : list sstep }.

(** ---- accessors on an observed link ---- *)
Definition fld (n : nat) (l : lobs) : Z := nth n (fst l) 0.
Definition o_conn (l : lobs) : bool := fld 0 l =? 1.
Definition o_reg (l : lobs) : bool := fld 1 l =? 1.
Definition o_win (l : lobs) : Z := fld 2 l.
Definition o_has_lr (l : lobs) : bool := fld 3 l =? 1.
Definition o_lr (l : lobs) : Z := fld 4 l.
Definition o_keys (l : lobs) : list Z := fst (fst (snd l)).
Definition o_queue (l : lobs) : list Z := snd (fst (snd l)).

(** ---- the reference's view of an observed state ---- *)
(** usable = registered (REG3 seen), connected, and not silent for the liveness timeout *)
Definition o_usable (now tmo : Z) (l : lobs) : bool :=
  o_conn l && negb (o_reg l) && (negb (o_has_lr l) || negb (tmo <=? Z.max 0 (now - o_lr l))).
Definition rview (now tmo : Z) (l : lobs) : rlink :=
  {| r_usable := o_usable now tmo l; r_window := o_win l;
     r_inflight := blen (o_keys l); r_queued := blen (o_queue l) |}.
Fixpoint aview (arrival : nat) (i : nat) (ls : list lobs) : list alink :=
  match ls with
  | [] => []
  | l :: t => (o_conn l, o_has_lr l || Nat.eqb i arrival, o_win l, o_keys l) :: aview arrival (S i) t
  end.

Definition wins (ls : list lobs) : list Z := map o_win ls.

(** ---- monitor clauses ----
    1 shape   2 packet not sent to the reference's choice   3 windows after an SRTLA ACK differ
    from the reference   4 windows after a NAK differ from -100 per charged NAK (floor 1000)
    5 a window moved on an event that moves no window (packet, flush, cumulative ACK, ...)
    6 a housekeeping tick moved a window (time-based recovery in classic mode) *)
Definition nak_link_ok (p n : lobs) : bool :=
  let kp := length (o_keys p) in let kn := length (o_keys n) in
  (kn <=? kp)%nat && (o_win n =? ref_naks (kp - kn) (o_win p)).
Fixpoint forall2b {A B} (f : A -> B -> bool) (a : list A) (b : list B) : bool :=
  match a, b with
  | [], [] => true
  | x :: a', y :: b' => f x y && forall2b f a' b'
  | _, _ => false
  end.

Definition mon_step (o : xop) (p : list lobs) (n : fobs) : N :=
  let ch := fst (fst n) in let nl := snd n in
  if negb (Nat.eqb (length p) (length nl)) then 1%N else
  match o with
  | XPkt seq retx now tmo =>
    if negb (ch =? zon (ref_select (map (rview now tmo) p))) then 2%N
    else if zlist_eqb (wins p) (wins nl) then 0%N else 5%N
  | XSrtlaAck idx seqs now =>
    if zlist_eqb (wins nl) (map a_win (ref_srtla_ack idx (aview idx O p) seqs)) then 0%N else 3%N
  | XNak idx seqs now => if forall2b nak_link_ok p nl then 0%N else 4%N
  | XHousekeep now bs => if zlist_eqb (wins p) (wins nl) then 0%N else 6%N
  | XFlush _ | XSrtAck _ _ _ | XCritical _ | XNoise | XSetQ _ _ =>
    if zlist_eqb (wins p) (wins nl) then 0%N else 5%N
  | XUp _ _ | XDown _ | XSetWindow _ _ | XSetReg _ _ | XSetConn _ _ _ => 0%N   (* set-up ops *)
  end.

(** first failing clause and its step (1-based) *)
Fixpoint run_mon (p : list lobs) (tr : list (xop * fobs)) (i : N) : N * N :=
  match tr with
  | [] => (0, 0)%N
  | (o, n) :: t =>
    let cl := mon_step o p n in
    if (cl =? 0)%N then run_mon (snd n) t (i + 1)%N else (cl, (i + 1)%N)
  end.
Definition ok_C10 (init : list lobs) (tr : list (xop * fobs)) : bool := (fst (run_mon init tr 0) =? 0)%N.

(** ---- correspondence: the model, with the override guard as extracted from the source ---- *)
Fixpoint run_corr (s : shell) (tr : list (xop * fobs)) (i : N) : N :=
  match tr with
  | [] => 0%N
  | (o, n) :: t =>
    let '(s', ou) := xstep override_mode_guarded s o in
    if fobs_eqb (obs_step ou s') n then run_corr s' t (i + 1)%N else (i + 1)%N
  end.

(** result = bit0 (model <> implementation) + bit1 (monitor fails on the implementation's
    trace) + 4 * clause + 1024 * step *)
Definition check_case (c : case) : N :=
  let i0 := init_obs (c_init c) in
  let tr := expand i0 (c_steps c) in
  let s0 := xinit (c_n c) (c_grace c) in
  let corr0 := list_eqb lobs_eqb (obs_shell s0) i0 in
  let cbad := if corr0 then run_corr s0 tr 0 else 1%N in
  let '(cl, mbad) := run_mon i0 tr 0 in
  let corr_fail := negb (cbad =? 0)%N in
  let mon_fail := negb (cl =? 0)%N in
  ((if corr_fail then 1 else 0) + (if mon_fail then 2 else 0) + 4 * cl +
   1024 * (if mon_fail then mbad else cbad))%N.
