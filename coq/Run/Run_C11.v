(** Run_C11.v — monitor and [check_case] for C11
    "Enhanced selection is stable, hysteretic and respects its gates".

    The monitor carries an independent score oracle ([spec_score], written from the documented
    formula  score = base x phase weight x quality x soft cap x gate, evaluated in binary64 in
    that order) and judges every enhanced-mode select of the implementation's own trace:

      1  the chosen uplink is over its in-flight cap although an unconstrained uplink exists
      2  the scheduler left the previous uplink although that uplink was a candidate and no
         candidate's score reached 1.10 x its score
      3  the chosen uplink does not maximise the oracle score (and was not held by hysteresis),
         i.e. weak / loss-degraded links did not compete at 2 %, warming ones at 80 %, ...
      4  the same call repeated on the unchanged state returned a different uplink
      5  a quality multiplier left behind in a link's cache is outside [0.35, 1.1 x 1.03]
      6  the chosen uplink is not a candidate at all (ineligible: timed out, registering, gated)

    The gate flags ([stall_gated], timeout) are taken from what the implementation reported
    after the call; everything else from the tracked pre-state. *)
From Srtla Require Import Base Constants FConstants.
From Srtla Require Export Run_Sel.
Local Open Scope Z_scope.

(** the numbers the property text names, as literals (so that an edited constant in the code is
    judged against the text, not against itself) *)
Definition SPEC_SWITCH : float := 0x1.199999999999ap+0%float.     (* 1.10 *)
Definition SPEC_GATE : float := 0x1.47ae147ae147bp-6%float.       (* 2 %  *)
Definition SPEC_WARM : float := 0x1.999999999999ap-1%float.       (* 80 % *)
Definition SPEC_CAP_FLOOR : float := 0x1.999999999999ap-4%float.  (* 0.1  *)
Definition SPEC_Q_LO : float := 0x1.6666666666666p-2%float.       (* 0.35 *)
Definition SPEC_Q_HI : float := (0x1.199999999999ap+0 * 0x1.07ae147ae147bp+0)%float.  (* 1.1 x 1.03 *)
Definition spec_q_rangeb (q : float) : bool := (SPEC_Q_LO <=? q)%float && (q <=? SPEC_Q_HI)%float.

(** ---- the oracle ------------------------------------------------------------------------------ *)
(** liveness: a connected link times out on receive silence; a never-established link is covered by
    its start-up grace; otherwise a disconnected link is timed out unless it was heard recently *)
Definition spec_timed_out (now : Z) (c : link) : bool :=
  let silent := match l_lastrx c with Some lr => l_timeout c <=? Z.max 0 (now - lr) | None => true end in
  if l_conn c then match l_lastrx c with None => false | Some _ => silent end
  else if (l_est c =? 0) && (now <? l_grace c) then false else silent.

Definition spec_eligible (now : Z) (c : link) : bool :=
  negb (spec_timed_out now c) && match l_phase c with PReg => false | _ => true end && negb (l_gated c).

(** cap = max(1, floor(cc_target_bps * rtt_min_s / 8 * 1.5 / packet_bytes)), rtt_min <= 0 or not
    finite counts as 1 ms, no cap without a target *)
Definition spec_over_cap (c : link) : bool :=
  if l_cct c =? 0 then false
  else
    let r := l_rttmin c in
    let rtt := if negb (PrimFloat.is_nan r) && negb (PrimFloat.is_infinity r) && (0 <? r)%float then r else 1%float in
    let pk := (f64_of_u64 (l_cct c) * (rtt / 1000) / 8 * IN_FLIGHT_CAP_BDP_MULT
               / f64_of_nat63 ASSUMED_SRT_PAYLOAD_BYTES)%float in
    f64_as_i32 (f64_min (f64_max (f64_floor pk) 1%float) (f64_of_nat63 i32_max)) <? l_inflight c.

Definition spec_unconstrained (now : Z) (c : link) : bool :=
  l_conn c && spec_eligible now c && negb (l_weak c) && negb (l_lossdeg c) && negb (spec_over_cap c).

(** candidate = takes part in the ranking *)
Definition spec_candidate (au : bool) (now : Z) (c : link) : bool :=
  spec_eligible now c && negb (au && spec_over_cap c).

(** soft cap: clamp((target - measured) / target, 0.1, 1), 1 without a target or without traffic *)
Definition spec_soft_cap (c : link) : float :=
  if (l_cct c =? 0) || (l_bps c <=? 0)%float then 1%float
  else let t := f64_of_u64 (l_cct c) in
       f64_clamp SPEC_CAP_FLOOR 1%float (f64_max (t - l_bps c) 0%float / t)%float.

(** quality multiplier, with the 50 ms cache *)
Definition spec_quality (now : Z) (e : float) (c : link) : float :=
  if ssub now (l_qlast c) <? QUALITY_CACHE_INTERVAL_MS then l_qmult c
  else if ssub now (l_est c) <? STARTUP_GRACE_PERIOD_MS then
    (if l_nakcnt c =? 0 then PERFECT_CONNECTION_BONUS else STARTUP_NAK_PENALTY)
  else
    let nak :=
      if l_naklast c =? 0 then (if l_nakcnt c =? 0 then PERFECT_CONNECTION_BONUS else 1%float)
      else let m := (1 - MAX_PENALTY * e)%float in
           if (NAK_BURST_THRESHOLD <=? l_nakburst c) && (ssub now (l_naklast c) <? NAK_BURST_MAX_AGE_MS)
           then (m * NAK_BURST_PENALTY)%float else m in
    let s := f64_max (l_srtt c) 0%float in
    let bonus := if (s <=? 0)%float then 1%float
                 else f64_max (f64_min (RTT_BONUS_THRESHOLD_MS / f64_max s MIN_RTT_MS)%float MAX_RTT_BONUS) 1%float in
    (nak * bonus)%float.

Definition spec_base (c : link) : Z :=
  if l_conn c then Z.quot (l_window c) (Z.max 1 (sat_add_i32 (sat_add_i32 (l_inflight c) (l_queued c)) 1))
  else -1.

Definition spec_score (au quality : bool) (now : Z) (e : float) (c : link) : float :=
  let phase := match l_phase c with PReg => 0%float | PWarm => SPEC_WARM | _ => 1%float end in
  let gate := if au && (l_weak c || l_lossdeg c) then SPEC_GATE else 1%float in
  let b := (f64_of_i32 (spec_base c) * phase)%float in
  if quality then (b * spec_quality now e c * spec_soft_cap c * gate)%float
  else (b * spec_soft_cap c * gate)%float.

(** per-link oracle scores, [None] for a non-candidate *)
Fixpoint spec_scores (au quality : bool) (now : Z) (ls : list link) (exps : list float) : list (option float) :=
  match ls with
  | [] => []
  | c :: t => (if spec_candidate au now c then Some (spec_score au quality now (hd 1%float exps) c) else None)
              :: spec_scores au quality now t (tl exps)
  end.

(** ---- the clauses ------------------------------------------------------------------------------- *)
Definition nth_score (scs : list (option float)) (i : nat) : option float := nth i scs None.

(** no candidate beats [x]:  for all j, not (x < score_j) *)
Definition is_max (scs : list (option float)) (x : float) : bool :=
  forallb (fun o => match o with Some s => negb (x <? s)%float | None => true end) scs.
(** every candidate stays below the switching threshold of the current score *)
Definition all_below (scs : list (option float)) (cur : float) : bool :=
  forallb (fun o => match o with Some s => (s <? cur * SPEC_SWITCH)%float | None => true end) scs.

(** the pre-state as the selector loop saw it: gate flags and timeout as reported after the call *)
Definition gated_view (s : list link) (hs : list hid) : list link :=
  set_hids s (map (fun p => let '(c, h) := p in
                    h_set_timeout (h_timeout h) (h_set_gated (h_gated h) (hid_of c))) (combine s hs)).

Definition enhanced_quality (cfg : config) : bool :=
  c_quality cfg && match c_mode cfg with Classic => false | Enhanced => true end.

Definition mon_select (s : list link) (last : option nat) (now : Z) (cfg : config) (exps : list float)
           (o : sobs) : N :=
  match c_mode cfg with
  | Classic => 0%N
  | Enhanced =>
    if negb (forallb wf_linkb s && forallb exp_okb exps && (length (o_hid o) =? length s)%nat) then 0%N else
    let g := gated_view s (o_hid o) in
    let au := existsb (spec_unconstrained now) g in
    let scs := spec_scores au (enhanced_quality cfg) now g exps in
    let c5 := forallb (fun h => spec_q_rangeb (h_qmult h)) (o_hid o) in
    let cur := match last with Some l => nth_score scs l | None => None end in
    match o_res o with
    | None => if c5 then 0%N else 5%N
    | Some i =>
      match nth_error g i, nth_score scs i with
      | Some ci, Some si =>
          if au && spec_over_cap ci then 1%N
          else if (match last, cur with
                   | Some l, Some sc => negb (Nat.eqb i l) && all_below scs sc
                   | _, _ => false end) then 2%N
          else if negb (is_max scs si ||
                        match last, cur with
                        | Some l, Some sc => Nat.eqb i l && all_below scs sc
                        | _, _ => false end) then 3%N
          else if c5 then 0%N else 5%N
      | Some ci, None => if au && spec_over_cap ci then 1%N else 6%N
      | None, _ => 6%N
      end
    end
  end.

Definition same_call (a b : event) : bool :=
  match a, b with
  | ES l1 n1 c1 e1 _, ES l2 n2 c2 e2 _ =>
      onat_eqb l1 l2 && (n1 =? n2) && list_eqb feqb e1 e2 &&
      match c1, c2 with
      | Cfg m1 q1 s1 a1 b1 t1, Cfg m2 q2 s2 a2 b2 t2 =>
          match m1, m2 with Classic, Classic | Enhanced, Enhanced => true | _, _ => false end &&
          Bool.eqb q1 q2 && Bool.eqb s1 s2 && (a1 =? a2) && (b1 =? b2) && (t1 =? t2)
      end
  | _, _ => false
  end.
Definition res_of (e : event) : option nat := match e with ES _ _ _ _ o => o_res o | _ => None end.

(** first failing clause and the 1-based op index; [prev] = the previous event *)
Fixpoint mon_from (s : list link) (prev : option event) (tr : list event) (i : N) : N * N :=
  match tr with
  | [] => (0%N, 0%N)
  | ev :: r =>
      let c := match ev with
               | ES last now cfg exps o =>
                   let c14 := mon_select s last now cfg exps o in
                   if negb (c14 =? 0)%N then c14
                   else match prev with
                        | Some p => if same_call p ev && negb (onat_eqb (res_of p) (o_res o)) &&
                                       match c_mode cfg with Enhanced => true | Classic => false end &&
                                       (0 <? now)      (* 0 is the code's "never" time stamp *)
                                    then 4%N else 0%N
                        | None => 0%N
                        end
               | _ => 0%N
               end in
      if (c =? 0)%N then mon_from (track s ev) (Some ev) r (i + 1)%N else (c, (i + 1)%N)
  end.

Definition ok_C11 (tr : list event) : bool := (fst (mon_from [] None tr 0) =? 0)%N.

Definition check_case (c : case) : N :=
  let impl := impl_trace (c_ops c) (c_obs c) in
  let d := first_diff (run (c_ops c)) impl 0 in
  let '(v, vs) := mon_from [] None impl 0 in
  verdict d v vs.
