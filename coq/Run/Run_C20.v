(** Run_C20.v — case type, monitor and [check_case] for C20.

    The monitor [ok_C20] is the property text as a decidable predicate over an
    observable trace (calls, returns, the publication order, receiver-side events,
    "polled and still pending" marks).  It never looks at model state.  It is an online
    automaton ([mon_step]) so that it is meaningful on every prefix of a run.

    Clause codes (the detail code of a failing case):
      1  a publisher was found blocked while no other hub call was in progress
         (it can only ever wait for the holder of the hub mutex, never for a subscriber)
      2  ill-formed trace (return without call, two calls of one task, ...)
      3  a subscription id was handed out twice
      4  a line was received on a connection/topic other than the one its id was subscribed with
      5  the lines received for an id are not a subsequence of the publication order
         restricted to its topic (wrong topic, reordered, duplicated or never published)
      6  a line was delivered by a publish that happened after the id's unsubscribe completed
      7  len() still counts a subscription that must be gone (unsubscribed, or closed and
         its topic published since) *)
From Srtla Require Export Base Hub.

(** ---- decidable equality on observable values ---- *)
Definition op_eqb (a b : op) : bool :=
  match a, b with
  | OChan c n, OChan c' n' => (c =? c') && (n =? n')
  | OSub tp c, OSub tp' c' => (tp =? tp') && (c =? c')
  | OUnsub i, OUnsub i' => i =? i'
  | OPub tp d, OPub tp' d' => (tp =? tp') && (d =? d')
  | OLen, OLen => true
  | ORecv c, ORecv c' => c =? c'
  | OClose c, OClose c' => c =? c'
  | _, _ => false
  end.
Definition ret_eqb (a b : ret) : bool :=
  match a, b with
  | RSub i, RSub i' => i =? i'
  | RUnsub r, RUnsub r' => Bool.eqb r r'
  | RPub, RPub => true
  | RLen n, RLen n' => n =? n'
  | _, _ => false
  end.
Definition msg_eqb (a b : msg) : bool :=
  (m_id a =? m_id b) && (m_topic a =? m_topic b) && (m_data a =? m_data b).
Definition ev_eqb (a b : ev) : bool :=
  match a, b with
  | ECall t o, ECall t' o' => (t =? t') && op_eqb o o'
  | ERet t r, ERet t' r' => (t =? t') && ret_eqb r r'
  | EPubLin t tp d, EPubLin t' tp' d' => (t =? t') && (tp =? tp') && (d =? d')
  | ERecv c m, ERecv c' m' => (c =? c') && opt_eqb msg_eqb m m'
  | EClose c, EClose c' => c =? c'
  | EBlocked t, EBlocked t' => t =? t'
  | _, _ => false
  end.

(** ---- monitor state ---- *)
Record pcall := { p_op : op; p_lin : bool; p_n : Z; p_ids : list Z }.
Record known := { k_topic : Z; k_chan : Z; k_ret : bool }.

Record mstate := {
  m_pend : list (Z * pcall);      (* hub calls in progress, by task *)
  m_known : list (Z * known);     (* subscription id -> topic, connection, returned by subscribe yet? *)
  m_pubs : list (Z * Z);          (* the publication order: (topic, data), oldest first *)
  m_last : list (Z * nat);        (* id -> first admissible position for its next line *)
  m_dead : list (Z * nat);        (* id -> length of m_pubs when it was known to be gone *)
  m_closed : list Z;              (* connections whose receiver was dropped *)
  m_nsub : Z                      (* subscribe calls so far *)
}.
Definition m_init : mstate :=
  {| m_pend := []; m_known := []; m_pubs := []; m_last := []; m_dead := []; m_closed := []; m_nsub := 0 |}.

Inductive mres := MOk (m : mstate) | MBad (code : N).

Fixpoint remove_key {A} (l : list (Z * A)) (k : Z) : list (Z * A) :=
  match l with
  | [] => []
  | (k', v) :: r => if k' =? k then remove_key r k else (k', v) :: remove_key r k
  end.

Definition set_pend m p := {| m_pend := p; m_known := m_known m; m_pubs := m_pubs m; m_last := m_last m;
  m_dead := m_dead m; m_closed := m_closed m; m_nsub := m_nsub m |}.
Definition set_known m k := {| m_pend := m_pend m; m_known := k; m_pubs := m_pubs m; m_last := m_last m;
  m_dead := m_dead m; m_closed := m_closed m; m_nsub := m_nsub m |}.
Definition set_dead m d := {| m_pend := m_pend m; m_known := m_known m; m_pubs := m_pubs m; m_last := m_last m;
  m_dead := d; m_closed := m_closed m; m_nsub := m_nsub m |}.

(** first position >= start holding key (greedy subsequence matching) *)
Fixpoint find_from (l : list (Z * Z)) (i start : nat) (k : Z * Z) : option nat :=
  match l with
  | [] => None
  | x :: r =>
    if (start <=? i)%nat && (fst x =? fst k) && (snd x =? snd k) then Some i
    else find_from r (S i) start k
  end.

Definition get_last (m : mstate) (id : Z) : nat :=
  match lookup (m_last m) id with Some n => n | None => O end.

Definition mark_dead (d : list (Z * nat)) (n : nat) (id : Z) : list (Z * nat) :=
  match lookup d id with Some _ => d | None => d ++ [(id, n)] end.
Definition mark_dead_all (d : list (Z * nat)) (n : nat) (ids : list Z) : list (Z * nat) :=
  fold_left (fun acc id => mark_dead acc n id) ids d.

Definition is_returned (m : mstate) (id : Z) : bool :=
  match lookup (m_known m) id with Some k => k_ret k | None => false end.

(** ids that the publish of [tp] linearised now must have pruned when it returns:
    subscribe returned, same topic, receiver already dropped *)
Definition must_prune (m : mstate) (tp : Z) : list Z :=
  filter (fun id => match lookup (m_known m) id with
                    | Some k => k_ret k && (k_topic k =? tp) && zmem (k_chan k) (m_closed m)
                    | None => false
                    end)
         (map fst (m_known m)).

Definition pending_sub (m : mstate) (tp c : Z) : bool :=
  existsb (fun tp_ => match p_op (snd tp_) with OSub tp' c' => (tp' =? tp) && (c' =? c) | _ => false end) (m_pend m).

Definition other_pending (m : mstate) (t : Z) : bool :=
  existsb (fun tp_ => negb (fst tp_ =? t)) (m_pend m).

Definition mon_step (m : mstate) (e : ev) : mres :=
  match e with
  | ECall t o =>
    if is_hub_op o then
      match lookup (m_pend m) t with
      | Some _ => MBad 2
      | None =>
        let n := match o with
                 | OLen => blen (m_dead m)
                 | OUnsub id => if is_returned m id then 1 else 0
                 | _ => 0 end in
        let m1 := set_pend m (update (m_pend m) t {| p_op := o; p_lin := false; p_n := n; p_ids := [] |}) in
        MOk {| m_pend := m_pend m1; m_known := m_known m1; m_pubs := m_pubs m1; m_last := m_last m1;
               m_dead := m_dead m1; m_closed := m_closed m1;
               m_nsub := match o with OSub _ _ => m_nsub m + 1 | _ => m_nsub m end |}
      end
    else MOk m
  | ERet t r =>
    match lookup (m_pend m) t with
    | None => MBad 2
    | Some p =>
      let m0 := set_pend m (remove_key (m_pend m) t) in
      match p_op p, r with
      | OSub tp c, RSub id =>
        match lookup (m_known m) id with
        | None => MOk (set_known m0 (update (m_known m) id {| k_topic := tp; k_chan := c; k_ret := true |}))
        | Some k =>
          if k_ret k then MBad 3
          else if (k_topic k =? tp) && (k_chan k =? c)
               then MOk (set_known m0 (update (m_known m) id {| k_topic := tp; k_chan := c; k_ret := true |}))
               else MBad 3
        end
      | OUnsub id, RUnsub removed =>
        if removed || (p_n p =? 1) then MOk (set_dead m0 (mark_dead (m_dead m) (length (m_pubs m)) id))
        else MOk m0
      | OPub _ _, RPub =>
        if p_lin p then MOk (set_dead m0 (mark_dead_all (m_dead m) (length (m_pubs m)) (p_ids p)))
        else MBad 2
      | OLen, RLen n => if n + p_n p <=? m_nsub m then MOk m0 else MBad 7
      | _, _ => MBad 2
      end
    end
  | EPubLin t tp d =>
    match lookup (m_pend m) t with
    | Some p =>
      if op_eqb (p_op p) (OPub tp d) && negb (p_lin p) then
        MOk {| m_pend := update (m_pend m) t {| p_op := p_op p; p_lin := true; p_n := p_n p; p_ids := must_prune m tp |};
               m_known := m_known m; m_pubs := m_pubs m ++ [(tp, d)]; m_last := m_last m;
               m_dead := m_dead m; m_closed := m_closed m; m_nsub := m_nsub m |}
      else MBad 2
    | None => MBad 2
    end
  | ERecv c None => MOk m
  | ERecv c (Some mg) =>
    let id := m_id mg in
    let tp := m_topic mg in
    let known_ok :=
      match lookup (m_known m) id with
      | Some k => if (k_topic k =? tp) && (k_chan k =? c) then Some (m_known m) else None
      | None => if pending_sub m tp c
                then Some (update (m_known m) id {| k_topic := tp; k_chan := c; k_ret := false |})
                else None
      end in
    match known_ok with
    | None => MBad 4
    | Some kn =>
      match find_from (m_pubs m) O (get_last m id) (tp, m_data mg) with
      | None => MBad 5
      | Some p =>
        let late := match lookup (m_dead m) id with Some n => (n <=? p)%nat | None => false end in
        if late then MBad 6
        else MOk {| m_pend := m_pend m; m_known := kn; m_pubs := m_pubs m;
                    m_last := update (m_last m) id (S p); m_dead := m_dead m;
                    m_closed := m_closed m; m_nsub := m_nsub m |}
      end
    end
  | EClose c =>
    MOk {| m_pend := m_pend m; m_known := m_known m; m_pubs := m_pubs m; m_last := m_last m;
           m_dead := m_dead m; m_closed := c :: m_closed m; m_nsub := m_nsub m |}
  | EBlocked t =>
    match lookup (m_pend m) t with
    | Some p =>
      match p_op p with
      | OPub _ _ => if other_pending m t then MOk m else MBad 1
      | _ => MOk m
      end
    | None => MOk m
    end
  end.

Fixpoint mon_run (m : mstate) (tr : list ev) : mres :=
  match tr with
  | [] => MOk m
  | e :: r => match mon_step m e with MOk m1 => mon_run m1 r | MBad c => MBad c end
  end.

Definition mon_code (tr : list ev) : N :=
  match mon_run m_init tr with MOk _ => 0%N | MBad c => c end.

(** The property as a boolean over an observable trace. *)
Definition ok_C20 (tr : list ev) : bool := (mon_code tr =? 0)%N.

(** ---- cases ---- *)
Inductive case :=
| CSeq (calls : list (Z * op)) (impl : list ev)   (* whole operations, one at a time, single poll *)
| CStress (impl : list ev).                       (* multi-thread run, events in global stamp order *)

Definition evs_eqb := list_eqb ev_eqb.

Definition check_case (c : case) : N :=
  match c with
  | CSeq calls impl =>
    let corr := evs_eqb (run_calls init calls) impl in
    let code := mon_code impl in
    ((if corr then 0 else 1) + (if (code =? 0)%N then 0 else 2) + 4 * code)%N
  | CStress impl =>
    let code := mon_code impl in
    ((if (code =? 0)%N then 0 else 2) + 4 * code)%N
  end.
