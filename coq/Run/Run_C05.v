(** Run_C05.v — monitor for C05 "A NAK is charged once, and only to a link that
    carried the packet". *)
From Srtla Require Import Base Constants Conn.
From Srtla Require Export Conn Run_Core.

(** what the sender "still remembers": an independent copy of the tracking rule of the
    property text (same number, <= 5 s old, not displaced by a colliding newer number,
    link still present) *)
Record mem := { m_ids : list Z; m_trk : list (Z * (Z * Z * Z)) }.

Definition remembered (m : mem) (seq now : Z) : option nat :=
  match trk_get (m_trk m) seq now with
  | Some id =>
    (fix pos (l : list Z) (i : nat) := match l with [] => None | x :: t => if x =? id then Some i else pos t (S i) end) (m_ids m) O
  | None => None
  end.

Definition lchanged (x y : lobs) : bool :=
  negb ((o_nakcount x =? o_nakcount y) && (o_window x =? o_window y) && zlist_eqb (o_keys x) (o_keys y) &&
        (o_inflight x =? o_inflight y)).

Fixpoint changed_idx (i : nat) (p n : obs) : list nat :=
  match p, n with
  | x :: p', y :: n' => (if lchanged x y then [i] else []) ++ changed_idx (S i) p' n'
  | _, _ => []
  end.

(** clauses: 1 more than one link changed, 2 changed link did not hold the number,
    3 charge not exact, 4 remembered owner exists but another link was charged,
    5 unknown / repeated NAK changed something (covered by 2), 6 shape *)
Definition c05_nak (m : mem) (seq now : Z) (p n : obs) : N :=
  if negb (Nat.eqb (length p) (length n)) then 6%N else
  match changed_idx O p n with
  | [] => 0%N
  | [j] =>
    let x := nth j p ([], []) in let y := nth j n ([], []) in
    if negb (existsb (Z.eqb seq) (o_keys x)) then 2%N
    else if negb ((o_nakcount y =? o_nakcount x + 1) &&
                  (o_window y =? Z.max (o_window x - 100) 1000) &&
                  zlist_eqb (o_keys y) (filter (fun k => negb (k =? seq)) (o_keys x)) &&
                  (o_inflight y =? o_inflight x - 1)) then 3%N
    else match remembered m seq now with
         | Some k => if Nat.eqb k j then 0%N else 4%N
         | None => 0%N
         end
  | _ => 1%N
  end.

Definition mon_C05 : monitor mem :=
  {| m_init := fun ids _ => ({| m_ids := ids; m_trk := [] |}, 0%N);
     m_step := fun m o p n =>
       match o with
       | OTrack i seq now =>
         ({| m_ids := m_ids m; m_trk := trk_insert (m_trk m) seq (nth i (m_ids m) 0) now |}, 0%N)
       | ORemoveConn i =>
         ({| m_ids := m_ids m; m_trk := trk_remove_conn (m_trk m) (nth i (m_ids m) 0) |}, 0%N)
       | ONak seq now => (m, c05_nak m seq now p n)
       | _ => (m, 0%N)
       end |}.

Definition check_case (c : case) : N := check_with mon_C05 c.
