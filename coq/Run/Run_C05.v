(** Run_C05.v — monitor for C05 "A NAK is charged once, and only to a link that
    carried the packet". *)
From Srtla Require Import Base Constants Conn.
From Srtla Require Export Conn Run_Core.

(** what the sender "still remembers": an independent copy of the tracking rule of the
    property text (same number, <= 5 s old, not displaced by a colliding newer number,
    link still present) *)
Record mem := { m_ids : list Z; m_trk : tracker }.

Fixpoint pos_of (id : Z) (l : list Z) (i : nat) : option nat :=
  match l with [] => None | x :: t => if x =? id then Some i else pos_of id t (S i) end.
Definition remembered (m : mem) (seq now : Z) : option nat :=
  match trk_get (m_trk m) seq now with
  | Some id => pos_of id (m_ids m) O
  | None => None
  end.

(** the accounting view of a link: loss count, window, in-flight set and count *)
Definition lsame (x y : lobs) : bool :=
  (o_nakcount x =? o_nakcount y) && (o_window x =? o_window y) && zlist_eqb (o_keys x) (o_keys y) &&
  (o_inflight x =? o_inflight y).
Definition all_unchanged (p n : obs) : bool := forall2b lsame p n.
Definition others_unchanged (j : nat) (p n : obs) : bool :=
  forall_idx (fun k x y => Nat.eqb k j || lsame x y) O p n.

(** exactly one loss count (saturating at i32::MAX), one window decrement of 100 floored
    at 1000, one in-flight slot *)
Definition exact_charge (seq : Z) (x y : lobs) : bool :=
  (o_nakcount y =? sat_add_i32 (o_nakcount x) 1) &&
  (o_window y =? Z.max (o_window x - 100) 1000) &&
  zlist_eqb (o_keys y) (filter (fun k => negb (k =? seq)) (o_keys x)) &&
  (o_inflight y =? o_inflight x - 1).

Definition nak_ok (m : mem) (seq now : Z) (p n : obs) : bool :=
  all_unchanged p n ||
  existsb (fun j =>
     let x := nth j p ([], []) in let y := nth j n ([], []) in
     others_unchanged j p n && existsb (Z.eqb seq) (o_keys x) && exact_charge seq x y &&
     match remembered m seq now with Some k => Nat.eqb k j | None => true end)
    (List.seq 0%nat (length p)).

(** diagnostics only: which clause failed.  1 more than one link changed, 2 the changed link did
    not hold the number, 3 charge not exact, 4 remembered owner exists but another link was charged *)
Fixpoint changed_idx (i : nat) (p n : obs) : list nat :=
  match p, n with
  | x :: p', y :: n' => (if lsame x y then [] else [i]) ++ changed_idx (S i) p' n'
  | _, _ => []
  end.
Definition nak_clause (m : mem) (seq now : Z) (p n : obs) : N :=
  match changed_idx O p n with
  | [j] =>
    let x := nth j p ([], []) in let y := nth j n ([], []) in
    if negb (existsb (Z.eqb seq) (o_keys x)) then 2%N
    else if negb (exact_charge seq x y) then 3%N else 4%N
  | _ => 1%N
  end.

Definition mon_C05 : monitor mem :=
  {| m_init := fun ids _ => ({| m_ids := ids; m_trk := [] |}, 0%N);
     m_step := fun m o p n =>
       if negb (Nat.eqb (length p) (length n)) then (m, 6%N) else
       match o with
       | OTrack i seq now =>
         (match nth_error (m_ids m) i with
          | Some id => {| m_ids := m_ids m; m_trk := trk_insert (m_trk m) seq id now |}
          | None => m end, 0%N)
       | ORemoveConn i =>
         (match nth_error (m_ids m) i with
          | Some id => {| m_ids := m_ids m; m_trk := trk_remove_conn (m_trk m) id |}
          | None => m end, 0%N)
       | ONak seq now => (m, if nak_ok m seq now p n then 0%N else nak_clause m seq now p n)
       | _ => (m, 0%N)
       end |}.

Definition check_case (c : case) : N := check_with mon_C05 c.
