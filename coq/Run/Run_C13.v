(** Run_C13.v — the C13 monitor (the property text as a boolean over the observable
    trace of one link) and [check_case].  The monitor never looks at the model: it is
    evaluated on what the implementation did, with its own bookkeeping of the
    "uninterrupted run of fresh delivery proof".

    Vocabulary of the property on an observed link (whole milliseconds, u64):
      eff    = clamp(4 x smoothed RTT, 1000, ceiling); no RTT baseline => ceiling;
               a ceiling below the floor wins
      fresh  = proof stamp present and younger than eff at this decision
      window = min(max(250, 2 x smoothed RTT), eff)            (silence pull) *)
From Coq Require Export Floats.
From Srtla Require Export Base Constants Stall StallSel StallOps Run_Stall.
Local Open Scope Z_scope.

Definition spec_eff (l : link) (cfg : config) : Z :=
  if x_rttpos (lx l) then Z.min (Z.max (sat_mul_u64 (x_rttms (lx l)) 4) 1000) (cf_ceil cfg)
  else cf_ceil cfg.

Definition spec_fresh (l : link) (now : Z) (cfg : config) : bool :=
  negb (a_proof (la l) =? 0) && (ssub now (a_proof (la l)) <? spec_eff l cfg).

Definition spec_window (l : link) (cfg : config) : Z :=
  Z.min (if x_rttpos (lx l) then Z.max (sat_mul_u64 (x_rttms (lx l)) 2) 250 else 250) (spec_eff l cfg).

(** what an op is for link [i]: a scheduling decision, a reset of this link, anything else *)
Inductive kind := KCall (now : Z) (cfg : config) | KReset | KOther.
Definition kind_of (i : Z) (o : op) : kind :=
  match o with
  | OSelect _ now cfg _ => KCall now cfg
  | OReset j => if j =? i then KReset else KOther
  | _ => KOther
  end.

(** Monitor state: start time of the current uninterrupted run of decisions at which
    the delivery proof was fresh ([None] = the last decision saw no fresh proof).

    Clauses (number = detail code):
     1 the latch engages only at a decision with the guard on, proof present and at
       least eff old, and (connected with in-flight >= threshold, or held by the pull)
     2 a latched link has produced delivery proof (never blind)
     3 short of a reset / guard off, the latch releases only at a decision ending a
       run of fresh-proof decisions that spans at least 2 x eff
     4 the pull releases only when the link was heard from within the window, or is
       disconnected (or reset / guard off)
     5 nothing but a decision or a reset of this link releases the latch
     6 nothing but a decision or a reset of this link releases the pull
     7 a reset of the link (soft or full) leaves no delivery proof behind: "has never produced
       delivery proof" is judged since the link's last reset
     8 the proof stamp moves only on an earned SRTLA ACK, a keepalive echo or a reset of this link
       (see [cum_clause]) *)
Definition mon_step (rs : option Z) (k : kind) (pre post : link) : option Z * N :=
  let lat0 := latched pre in
  let lat1 := latched post in
  let seen := negb lat1 || negb (a_proof (la post) =? 0) in
  let no_engage := negb (negb lat0 && lat1) in
  match k with
  | KCall now cfg =>
    if cf_guard cfg then
      let a := la pre in
      let e := spec_eff pre cfg in
      let rs' := if spec_fresh pre now cfg
                 then (match rs with Some s => Some s | None => Some now end) else None in
      (rs', first_clause [
        (1%N, no_engage ||
              (negb (a_proof a =? 0) && (e <=? ssub now (a_proof a)) &&
               ((a_conn a && (cf_min cfg <=? a_inflight a)) || g_pulled (lg post))));
        (2%N, seen);
        (3%N, negb (lat0 && negb lat1) ||
              match rs' with Some s => sat_mul_u64 e 2 <=? ssub now s | None => false end);
        (4%N, negb (g_pulled (lg pre) && negb (g_pulled (lg post))) || negb (a_conn a) ||
              match a_lastrecv a with Some lr => ssub now lr <? spec_window pre cfg | None => false end)])
    else (None, first_clause [(1%N, no_engage); (2%N, seen)])
  | KReset => (None, first_clause [(1%N, no_engage); (2%N, seen); (7%N, a_proof (la post) =? 0)])
  | KOther => (rs, first_clause [(1%N, no_engage); (2%N, seen); (5%N, negb lat0 || lat1);
                                 (6%N, negb (g_pulled (lg pre)) || g_pulled (lg post))])
  end.

(** clause 8: the delivery-proof stamp of a link moves only on an earned SRTLA ACK for it, on a
    keepalive echo on it, or when the link is reset (the harness's foreign-field setter aside): a
    cumulative SRT ACK, which arrives via any link and only drains the backlog, any other inbound
    datagram, a registration do not move it *)
Definition cum_on (i : Z) (o : op) : bool :=
  match o with
  | OSrtlaAck j known _ => negb ((j =? i) && known)
  | OEcho j _ _ _ | OReset j | OForeign j _ => negb (j =? i)
  | OSelect _ _ _ _ => false     (* a routing decision leaves all accounting untouched: C12's subject *)
  | _ => true
  end.
Definition cum_clause (i : nat) (o : op) (pre post : link) (cl : N) : N :=
  if (cl =? 0)%N && cum_on (Z.of_nat i) o && negb (a_proof (la post) =? a_proof (la pre)) then 8%N else cl.

(** run the monitor for link [i] over a trace: (clause, step) of the first failure *)
Fixpoint mon_link (i : nat) (rs : option Z) (tr : list tstep) (k : N) : N * N :=
  match tr with
  | [] => (0, 0)%N
  | t :: rest =>
    match nth_error (t_pre t) i, nth_error (t_post t) i with
    | Some pre, Some post =>
      let '(rs', cl0) := mon_step rs (kind_of (Z.of_nat i) (t_op t)) pre post in
      let cl := cum_clause i (t_op t) pre post cl0 in
      if (cl =? 0)%N then mon_link i rs' rest (k + 1)%N else (cl, (k + 1)%N)
    | _, _ => mon_link i rs rest (k + 1)%N
    end
  end.

Definition ok_link (i : nat) (tr : list tstep) : bool := (fst (mon_link i None tr 0) =? 0)%N.

(** the property over a whole observable trace on [n] links *)
Definition ok_C13 (n : nat) (tr : list tstep) : bool := forallb (fun i => ok_link i tr) (seq 0 n).

Fixpoint first_fail (n : nat) (i : nat) (tr : list tstep) : N * N :=
  match n with
  | O => (0, 0)%N
  | S m => let r := mon_link i None tr 0 in
           if (fst r =? 0)%N then first_fail m (S i) tr else r
  end.

Definition check_case (c : case) : N :=
  let cbad := run_corr (c_init c) (c_init c) (c_steps c) 0 in
  let tr := map fst (impl_trace (c_init c) (c_steps c)) in
  let '(cl, st) := first_fail (length (c_init c)) 0 tr in
  verdict_word cbad cl st.
