(** Run_C09.v — case type, runner, monitor and [check_case] for C09 (return path).
    A history case carries the ops and, after every op, what the implementation
    showed: every link's accounting fields, the datagrams that arrived on the SRT
    client socket during the op, and whether the op panicked.  The monitor is the
    property text as a boolean over that trace and never looks at the model.
    [check_case] = bit0 (model <> implementation) + bit1 (monitor fails on the
    implementation's trace) + 4 * clause + 1024 * step. *)
From Srtla Require Import Base Constants Wire WireSpec Conn Run_Core Run_C15.
From Srtla Require Export Uplink.

(** ---- observation ---- *)
Definition phase_obs (p : phase) : list Z :=
  match p with
  | PRegistering => [0; 0; 0] | PWarming n e => [1; n; e] | PLive => [2; 0; 0] | PDegraded => [3; 0; 0]
  end.
(** [waiting; phase kind; rtt_probes; entered_ms; connection_established_ms; failure count] *)
Definition obs_x (x : xlink) : list Z := zb (waiting x) :: phase_obs (ph x) ++ [established x; fails x].

Record uobs := {
  u_links : obs;               (* Run_Core.obs_link per link *)
  u_xs : list (list Z);        (* obs_x per link *)
  u_fwd : list wd;             (* datagrams received on the client socket during the op *)
  u_panic : bool }.

Definition obs_u (s : ustate) (fwd : list wd) (p : bool) : uobs :=
  {| u_links := obs_state (core s); u_xs := map obs_x (xs s); u_fwd := fwd; u_panic := p |}.

Definition wd_eqb (a b : wd) : bool :=
  match a, b with
  | WFull x, WFull y => zlist_eqb x y
  | WAbbr l h d, WAbbr l' h' d' => (l =? l') && zlist_eqb h h' && (d =? d')
  | _, _ => false
  end.

Definition uobs_eqb (a b : uobs) : bool :=
  obs_eqb (u_links a) (u_links b) && list_eqb zlist_eqb (u_xs a) (u_xs b) &&
  list_eqb wd_eqb (u_fwd a) (u_fwd b) && Bool.eqb (u_panic a) (u_panic b).

(** ---- the model's own trace ---- *)
Fixpoint model_steps (s : ustate) (ops : list uop) : list (uop * uobs) :=
  match ops with
  | [] => []
  | o :: t => let '(s', fwd, p) := ustep s o in (o, obs_u s' fwd p) :: model_steps s' t
  end.

Record hist := { h_ids : list Z; h_init : uobs; h_steps : list (uop * uobs) }.
Definition run (ids : list Z) (ops : list uop) : hist :=
  {| h_ids := ids; h_init := obs_u (uinit ids) [] false; h_steps := model_steps (uinit ids) ops |}.

(** ---- the monitor: property C09 over an observed trace ---- *)
(** SRTLA-internal frames, by type code: REG_NGP / REG2 / REG3 / REG_ERR replies, SRTLA ACK,
    keepalive echo *)
Definition is_registration (t : Z) : bool :=
  (t =? SRTLA_TYPE_REG_NGP) || (t =? SRTLA_TYPE_REG2) || (t =? SRTLA_TYPE_REG3) || (t =? SRTLA_TYPE_REG_ERR).
Definition is_internal (t : Z) : bool :=
  is_registration t || (t =? SRTLA_TYPE_ACK) || (t =? SRTLA_TYPE_KEEPALIVE).

Fixpoint pos_of (id : Z) (ids : list Z) (i : nat) : option nat :=
  match ids with
  | [] => None
  | x :: t => if x =? id then Some i else pos_of id t (S i)
  end.

Definition mem_z (x : Z) (l : list Z) : bool := existsb (Z.eqb x) l.
Definition o_waiting (x : list Z) : bool := nth 0 x 0 =? 1.

(** "earned": some number named by the SRTLA ACK was in this link's packet log before
    the datagram and has been retired from it *)
Definition earned (sacks : list Z) (p n : lobs) : bool :=
  existsb (fun a => mem_z (to_i32 a) (o_keys p) && negb (mem_z (to_i32 a) (o_keys n))) sacks.

(** delivery-proof clause for link j: the stamp moves only to [now], and only for an
    earned SRTLA ACK or, on the arrival link, a keepalive echo (type + timestamp
    present) while the link was awaiting one *)
Definition proof_ok (b : list Z) (now : Z) (arrival : option nat) (pxs : list (list Z))
           (j : nat) (p n : lobs) : bool :=
  (o_proof n =? o_proof p) ||
  ((o_proof n =? now) &&
   ((ozeqb (spec_type b) (Some SRTLA_TYPE_ACK) && earned (spec_parse_srtla_ack b) p n) ||
    (ozeqb (spec_type b) (Some SRTLA_TYPE_KEEPALIVE) && (10 <=? blen b) &&
     match arrival with Some i => Nat.eqb i j | None => false end &&
     o_waiting (nth j pxs [])))).

Definition is_nil {A} (l : list A) : bool := match l with [] => true | _ => false end.

(** clause numbers: 1 total, 2 relay, 3 internal never relayed, 4 unmodified,
    5 liveness stamp, 6 delivery proof only earned *)
Definition mon_uplink (ids : list Z) (k : bool) (id : Z) (w : wd) (now : Z) (p n : uobs) : N :=
  let b := bytes_of w in
  let ty := spec_type b in
  let arrival := pos_of id ids O in
  let on_link := match arrival with Some _ => true | None => false end in
  first_clause [
    (1%N, negb (u_panic n));
    (2%N, match ty with
          | Some t => if k && on_link && negb (is_internal t) then existsb (wd_eqb w) (u_fwd n) else true
          | None => true
          end);
    (3%N, match ty with Some t => if is_internal t then is_nil (u_fwd n) else true | None => true end);
    (4%N, forallb (wd_eqb w) (u_fwd n));
    (5%N, match ty, arrival with
          | Some t, Some i => if is_registration t then true else o_lastrecv (nth i (u_links n) ([], [])) =? now
          | _, _ => true
          end);
    (6%N, forall_idx (proof_ok b now arrival (u_xs p)) O (u_links p) (u_links n))
  ].

(** monitor state: is a client address known (set by the SClient op) *)
Definition mon_step (ids : list Z) (k : bool) (o : uop) (p n : uobs) : bool * N :=
  match o with
  | SClient b => (b, 0%N)
  | UUplink id w now _ => (k, mon_uplink ids k id w now p n)
  | _ => (k, 0%N)
  end.

Fixpoint mon_run (ids : list Z) (k : bool) (prev : uobs) (steps : list (uop * uobs)) (i : N) : N * N :=
  match steps with
  | [] => (0, 0)%N
  | (o, ob) :: t =>
    let '(k', cl) := mon_step ids k o prev ob in
    if (cl =? 0)%N then mon_run ids k' ob t (i + 1)%N else (cl, (i + 1)%N)
  end.

Definition ok_C09 (h : hist) : bool :=
  let '(cl, _) := mon_run (h_ids h) false (h_init h) (h_steps h) 0 in (cl =? 0)%N.

(** ---- correspondence ---- *)
Fixpoint corr_run (s : ustate) (steps : list (uop * uobs)) (i : N) : N :=
  match steps with
  | [] => 0%N
  | (o, ob) :: t =>
    let '(s', fwd, p) := ustep s o in
    if uobs_eqb (obs_u s' fwd p) ob then corr_run s' t (i + 1)%N else (i + 1)%N
  end.

Definition check_hist (h : hist) : N :=
  let s0 := uinit (h_ids h) in
  let corr0 := uobs_eqb (obs_u s0 [] false) (h_init h) in
  let cbad := if corr0 then corr_run s0 (h_steps h) 0 else 1%N in
  let '(cl, mbad) := mon_run (h_ids h) false (h_init h) (h_steps h) 0 in
  let corr_fail := negb (cbad =? 0)%N in
  let mon_fail := negb (cl =? 0)%N in
  ((if corr_fail then 1 else 0) + (if mon_fail then 2 else 0) + 4 * cl +
   1024 * (if mon_fail then mbad else cbad))%N.

(** ---- exhaustive type-code family ----
    All 256 type codes of a block are applied in sequence (frame = Run_C15.fam_frame,
    generated on both sides by the same rule) to the link [target], starting from the
    state reached by the set-up prelude [pre]; only a checksum of everything observed
    after each frame crosses.  Agreement on a block implies the monitor for its frames
    (theorem C09_monitor_holds); a disagreeing block is expanded into a history case. *)
Definition hash_wd (acc : Z * Z) (w : wd) : Z * Z :=
  match w with
  | WFull b => hlist (hstep acc 0) b
  | WAbbr l h d => hlist (hstep (hstep (hstep acc 1) l) d) h
  end.
Definition hash_lobs (acc : Z * Z) (l : lobs) : Z * Z := hlist (hlist acc (fst l)) (snd l).
Definition hash_uobs (acc : Z * Z) (o : uobs) : Z * Z :=
  let a := fold_left hash_lobs (u_links o) acc in
  let a := fold_left hlist (u_xs o) a in
  let a := fold_left hash_wd (u_fwd o) (hstep a (blen (u_fwd o))) in
  hbool a (u_panic o).

Definition run_pre (ids : list Z) (pre : list uop) : ustate :=
  fold_left (fun s o => fst (fst (ustep s o))) pre (uinit ids).

Definition fam_now (now0 t : Z) : Z := now0 + t mod 256.

Fixpoint fam_block (n : nat) (len salt t : Z) (target now0 : Z) (classic : bool)
         (s : ustate) (acc : Z * Z) : Z :=
  match n with
  | O => fst acc
  | S k =>
    let '(s', fwd, p) := ustep s (UUplink target (WFull (fam_frame len salt t)) (fam_now now0 t) classic) in
    fam_block k len salt (t + 1) target now0 classic s' (hash_uobs acc (obs_u s' fwd p))
  end.
Fixpoint fam_blocks (n : nat) (len salt k : Z) (target now0 : Z) (classic : bool) (s0 : ustate) : list Z :=
  match n with
  | O => []
  | S m => fam_block 256 len salt (k * 256) target now0 classic s0 (0, 1)
           :: fam_blocks m len salt (k + 1) target now0 classic s0
  end.

(** compact history: after each op only the links whose observation changed are listed *)
Inductive dlink := DL (i : nat) (l : lobs) (x : list Z).
Record dobs := { d_links : list dlink; d_fwd : list wd; d_panic : bool }.
Definition patch (prev : uobs) (d : dobs) : uobs :=
  {| u_links := fold_left (fun l e => match e with DL i lo _ => upd i (fun _ => lo) l end) (d_links d) (u_links prev);
     u_xs := fold_left (fun l e => match e with DL i _ x => upd i (fun _ => x) l end) (d_links d) (u_xs prev);
     u_fwd := d_fwd d; u_panic := d_panic d |}.
Fixpoint expand_steps (prev : uobs) (steps : list (uop * dobs)) : list (uop * uobs) :=
  match steps with
  | [] => []
  | (o, d) :: t => let ob := patch prev d in (o, ob) :: expand_steps ob t
  end.

Inductive case :=
| CHist (h : hist)
| CHistD (ids : list Z) (init : uobs) (steps : list (uop * dobs))
| CFam (len salt k0 : Z) (ids : list Z) (pre : list uop) (target now0 : Z) (classic : bool) (blocks : list Z).

Definition check_case (c : case) : N :=
  match c with
  | CHist h => check_hist h
  | CHistD ids init steps => check_hist {| h_ids := ids; h_init := init; h_steps := expand_steps init steps |}
  | CFam len salt k0 ids pre target now0 classic blocks =>
    let mb := fam_blocks (length blocks) len salt k0 target now0 classic (run_pre ids pre) in
    let bad := first_bad (fun p => fst p =? snd p) (combine mb blocks) 0 in
    if (bad =? 0)%N then 0%N else (1 + 4 * bad)%N
  end.
