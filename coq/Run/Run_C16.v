(** Run_C16.v — case type, model runner, monitor and [check_case] for C16
    "Per-link CC soft cap and loss latch stay bounded and honest".

    A case is a history of [tick_all] calls (time + the per-connection inputs the real
    controller read) together with what the real controller answered: the snapshot of every
    present connection, the private state (verif hook) and the set of tracked conn_ids.
    [check_case] = bit0 (model <> implementation) + bit1 (the implementation's own trace
    violates the property text) + 4 * detail. *)
From Coq Require Export Floats.
From Srtla Require Import Base Constants LinkCc LinkCcF.
From Srtla Require FConstants.
Local Open Scope Z_scope.

(** ---- observations ---- *)
Record lobs := L {
  o_st : Z;          (* 0 bootstrap 1 climbing 2 holding 3 backing_off 4 drain *)
  o_md : Z;          (* 0 normal 1 hai 2 fast_recovery *)
  o_tgt : Z;
  o_ewma : float; o_var : float; o_min : float;   (* snapshot rtt_ewma_ms, rtt_var_ms, rtt_min_ms *)
  o_lpm : Z;         (* snapshot loss_permille *)
  o_lewma : float;   (* snapshot loss_ewma *)
  o_deg : bool;      (* snapshot loss_degraded *)
  o_priv : list Z    (* private state, see [priv_of] *)
}.
Record tobs := TO { t_links : list lobs; t_keys : list Z }.

(** per-connection inputs as written by the harness (the loss-EWMA oracle is taken from the
    observation of the same tick) *)
Record cinp := I { ci_id : Z; ci_rtt : float; ci_bytes : Z; ci_nak : Z; ci_bps : float }.
Inductive cop := T (now : Z) (inps : list cinp).
Record case := C { c_ops : list cop; c_impl : list tobs }.

(** model-level op *)
Inductive op := Tick (now : Z) (inps : list inp).

Definition state_code (s : cc_state) : Z :=
  match s with Bootstrap => 0 | Climbing => 1 | Holding => 2 | BackingOff => 3 | Drain => 4 end.
Definition mode_code (m : climb_mode) : Z :=
  match m with Normal => 0 | Hai => 1 | FastRecovery => 2 end.

(** bit-exact float equality (all NaNs are one value in Coq's model) *)
Definition sf_eqb (a b : spec_float) : bool :=
  match a, b with
  | S754_zero s, S754_zero t => Bool.eqb s t
  | S754_infinity s, S754_infinity t => Bool.eqb s t
  | S754_nan, S754_nan => true
  | S754_finite s m e, S754_finite t n f => Bool.eqb s t && Pos.eqb m n && Z.eqb e f
  | _, _ => false
  end.
Definition feqb (a b : float) : bool := sf_eqb (Prim2SF a) (Prim2SF b).

Definition b2z (b : bool) : Z := if b then 1 else 0.

Fixpoint samples_digest (l : list loss_sample) (k acc : Z) : Z :=
  match l with
  | [] => acc
  | s :: t => samples_digest t (k + 1) (acc + (ls_ts s + 3 * ls_lost s + 5 * ls_sent s) * k)
  end.

(** the private fields in the order the harness prints them *)
Definition priv_of (s : link) : list Z :=
  let r := k_rtt s in let w := k_win s in let l := k_latch s in let e := k_eff s in
  [ r_min_stamp r; r_last r;
    blen (w_samples w); samples_digest (w_samples w) 1 0; w_lost w; w_sent w;
    c_fr_ticks (k_core s); w_prev_bytes w; w_prev_nak w; b2z (w_baseline w);
    l_last l; l_high_since l;
    e_ticks e; e_entry_pm e; b2z (e_unc e); e_unc_ticks e; b2z (c_seeded (k_core s)) ].

Definition lobs_of (s : link) : lobs :=
  let sn := snapshot_of s in
  L (state_code (s_state sn)) (mode_code (s_mode sn)) (s_target sn)
    (s_rtt_ewma sn) (s_rtt_var sn) (s_rtt_min sn) (s_loss_pm sn) (s_loss_ewma sn) (s_degraded sn)
    (priv_of s).

(** ---- the model's run: trace = (op, observation) per tick ---- *)
Definition tobs_of (c' : ctrl) (inps : list inp) : tobs :=
  TO (map (fun i => lobs_of (getd link_default c' (i_id i))) inps) (map fst c').

Fixpoint run_from (c : ctrl) (ops : list op) : list (op * tobs) :=
  match ops with
  | [] => []
  | Tick now inps :: t =>
      let c' := tick_all c now inps in
      (Tick now inps, tobs_of c' inps) :: run_from c' t
  end.
Definition run (ops : list op) : list (op * tobs) := run_from [] ops.

(** the controller state after a history *)
Fixpoint ctrl_from (c : ctrl) (ops : list op) : ctrl :=
  match ops with
  | [] => c
  | Tick now inps :: t => ctrl_from (tick_all c now inps) t
  end.
Definition ctrl_after (ops : list op) : ctrl := ctrl_from [] ops.

(** ---- well-formedness of a history (premise of the headline theorem) ----
    (a) a connection occurs at most once in the slice handed to [tick_all];
    (b) counters have their Rust types (u64 time and bytes, i32 NAK count);
    (c) once a link has left Bootstrap its smoothed RTT stays a finite non-zero number
        (the real RTT source is capped at 10 s; the model's own EWMA is what is tested). *)
Fixpoint nodupZ (l : list Z) : bool :=
  match l with [] => true | x :: t => negb (memZ x t) && nodupZ t end.

Definition inp_ok (i : inp) : bool :=
  (0 <=? i_bytes i) && (i_bytes i <=? u64_max) && (i32_min <=? i_nak i) && (i_nak i <=? i32_max).

Definition rtt_stays_valid (s : link) (now : Z) (i : inp) : bool :=
  cc_state_eqb (c_state (k_core s)) Bootstrap || negb (rtt_invalid (pre_tick_rtt s now i)).

Definition tick_wf (c : ctrl) (now : Z) (inps : list inp) : bool :=
  (0 <=? now) && (now <=? u64_max) && nodupZ (map i_id inps) &&
  forallb (fun i => inp_ok i && rtt_stays_valid (getd link_default c (i_id i)) now i) inps.

Fixpoint wf_from (c : ctrl) (ops : list op) : bool :=
  match ops with
  | [] => true
  | Tick now inps :: t => tick_wf c now inps && wf_from (tick_all c now inps) t
  end.
Definition wf (ops : list op) : bool := wf_from [] ops.

(** does this tick carry an RTT sample for the link ([rtt_ms > 0.0] and finite) *)
Definition rtt_sample_present (rtt : float) : bool := f_lt fzero rtt && f_is_finite rtt.

(** The same premise stated on the INPUTS alone (Proofs/LinkCcRttP.v shows it implies [wf]):
    every RTT the connection reports is either no sample (zero, negative, NaN, infinite) or a
    finite value in [2^-200, 2^200] ms. *)
Definition rtt_input_ok (rtt : float) : bool :=
  negb (rtt_sample_present rtt) ||
  (f_is_finite rtt && f_le 0x1p-200%float rtt && f_le rtt 0x1p+200%float).

Definition tick_wf_in (now : Z) (inps : list inp) : bool :=
  (0 <=? now) && (now <=? u64_max) && nodupZ (map i_id inps) &&
  forallb (fun i => inp_ok i && rtt_input_ok (i_rtt i)) inps.

Definition wf_inputs (ops : list op) : bool :=
  forallb (fun o => match o with Tick now inps => tick_wf_in now inps end) ops.

(** ---- the monitor: the property text over an observable trace ----
    Per link it remembers only what an observer of snapshots can know. *)
Record mon := mkMon {
  m_fresh : bool;        (* no snapshot of this link seen yet (it just appeared) *)
  m_tgt : Z;             (* previous snapshot: target_bps *)
  m_st : Z;              (* previous snapshot: state code *)
  m_rtt_seen : bool;     (* some tick so far carried an RTT sample (finite, > 0) *)
  m_seeded : bool;       (* some earlier snapshot was out of Bootstrap: initial seeding done *)
  m_since : option Z;    (* time of the first tick of the current run of ticks with ewma > 0.55 *)
  m_deg : bool;          (* previous snapshot: loss_degraded *)
  m_bad : N              (* first violated clause, 0 = none *)
}.
Definition mon_default : mon := mkMon true MIN_TARGET_BPS 0 false false None false 0%N.

(** clause codes *)
Definition cl_range : N := 1.        (* target outside [100 kbit/s, 200 Mbit/s] *)
Definition cl_floor : N := 2.        (* above the floor before any RTT sample *)
Definition cl_lowered : N := 3.      (* lowered by something else than back-off / drain entry *)
Definition cl_growth : N := 4.       (* grew by more than 6 % or beyond 2x measured after seeding *)
Definition cl_growth_floor : N := 5. (* same, and the tick started from exactly the floor (F7 class) *)
Definition cl_latch_on : N := 6.     (* degraded latched without 4 s above 0.55 *)
Definition cl_latch_off : N := 7.    (* degraded cleared while the average was not below 0.25 *)
Definition cl_gc : N := 8.           (* tracked set differs from the present set *)
Definition cl_rtt_lost : N := 9.     (* fell back to Bootstrap after leaving it (outside wf) *)
Definition cl_shape : N := 10.       (* observation list does not match the input list *)

Definition first_code (l : list (bool * N)) : N :=
  fold_right (fun (p : bool * N) acc => if fst p then acc else snd p) 0%N l.


(** is the loss average above the entry threshold in this snapshot *)
Definition mon_high (o : lobs) : bool := f_lt FConstants.LOSS_DEGRADE_ENTER (o_lewma o).

(** time since which the average has been above 0.55 at every tick of this link *)
Definition next_since (m : mon) (now : Z) (o : lobs) : option Z :=
  if mon_high o then (match m_since m with Some t => Some t | None => Some now end) else None.

(** "stays within [100 kbit/s, 200 Mbit/s]" *)
Definition c_range (o : lobs) : bool :=
  (MIN_TARGET_BPS <=? o_tgt o) && (o_tgt o <=? MAX_TARGET_BPS).

(** "sits at the floor until an RTT sample exists" *)
Definition c_floor (m : mon) (i : inp) (o : lobs) : bool :=
  m_rtt_seen m || rtt_sample_present (i_rtt i) || (o_tgt o =? MIN_TARGET_BPS).

(** well-formedness check: a link that left Bootstrap does not fall back into it *)
Definition c_rtt (m : mon) (o : lobs) : bool := negb (m_seeded m) || negb (o_st o =? 0).

(** "is lowered only by a loss back-off (x0.85, never below the rate the link is measurably
    delivering, never raising it) or once on entry to a drain (x0.75)" *)
Definition c_lowered (m : mon) (i : inp) (o : lobs) : bool :=
  let observed := observed_bps i in
  let tgt := o_tgt o in
  let prev := m_tgt m in
  m_fresh m || negb (tgt <? prev) ||
  ((o_st o =? 3) && (prev * 850 / 1000 <=? tgt) && (Z.min observed prev <=? tgt) &&
   (tgt <=? Z.max MIN_TARGET_BPS (Z.max (prev * 850 / 1000 + 1) (Z.min observed prev)))) ||
  ((o_st o =? 4) && negb (m_st m =? 4) && (prev * 750 / 1000 <=? tgt) &&
   (tgt <=? Z.max MIN_TARGET_BPS (prev * 750 / 1000 + 1))).

(** "after its initial seeding from measured throughput grows per tick by at most 6 % and
    never to beyond twice the measured rate" *)
Definition c_growth (m : mon) (i : inp) (o : lobs) : bool :=
  let tgt := o_tgt o in
  let prev := m_tgt m in
  m_fresh m || negb (m_seeded m) || negb (prev <? tgt) ||
  ((tgt * 1000 <=? prev * 1060) && (tgt <=? 2 * observed_bps i)).

(** "latches only after the loss average has stayed above 0.55 for 4 s" *)
Definition c_latch_on (m : mon) (now : Z) (o : lobs) : bool :=
  negb (o_deg o) || m_deg m ||
  (mon_high o && match m_since m with Some t => 4000 <=? now - t | None => false end).

(** "clears only once it falls below 0.25" *)
Definition c_latch_off (m : mon) (o : lobs) : bool :=
  o_deg o || negb (m_deg m) || f_lt (o_lewma o) FConstants.LOSS_DEGRADE_CLEAR.

Definition mon_clauses (m : mon) (now : Z) (i : inp) (o : lobs) : N :=
  first_code
    [ (c_range o, cl_range); (c_floor m i o, cl_floor); (c_rtt m o, cl_rtt_lost);
      (c_lowered m i o, cl_lowered);
      (c_growth m i o, if m_tgt m =? MIN_TARGET_BPS then cl_growth_floor else cl_growth);
      (c_latch_on m now o, cl_latch_on); (c_latch_off m o, cl_latch_off) ].

Definition mon_step (m : mon) (now : Z) (i : inp) (o : lobs) : mon :=
  mkMon false (o_tgt o) (o_st o)
        (m_rtt_seen m || rtt_sample_present (i_rtt i))
        (m_seeded m || negb (o_st o =? 0))
        (next_since m now o) (o_deg o)
        (if (m_bad m =? 0)%N then mon_clauses m now i o else m_bad m).

Definition mctrl := list (Z * mon).

Fixpoint mon_links (c : mctrl) (now : Z) (ios : list (inp * lobs)) : mctrl :=
  match ios with
  | [] => c
  | (i, o) :: t => mon_links (upsert c (i_id i) (mon_step (getd mon_default c (i_id i)) now i o)) now t
  end.

Definition first_bad_mon (c : mctrl) : N :=
  fold_right (fun (kv : Z * mon) acc => if (m_bad (snd kv) =? 0)%N then acc else m_bad (snd kv)) 0%N c.

(** set equality of the tracked keys and the present ids *)
Definition keys_ok (keys ids : list Z) : bool :=
  forallb (fun k => memZ k ids) keys && forallb (fun k => memZ k keys) ids && nodupZ keys.

Definition mon_tick (st : mctrl * N) (now : Z) (inps : list inp) (o : tobs) : mctrl * N :=
  let '(c, bad) := st in
  let ids := map i_id inps in
  let c1 := retain (mon_links c now (combine inps (t_links o))) ids in
  let b1 := if negb (length inps =? length (t_links o))%nat then cl_shape
            else if negb (keys_ok (t_keys o) ids) then cl_gc
            else first_bad_mon c1 in
  (c1, if (bad =? 0)%N then b1 else bad).

Fixpoint mon_run (st : mctrl * N) (tr : list (op * tobs)) : mctrl * N :=
  match tr with
  | [] => st
  | (Tick now inps, o) :: t => mon_run (mon_tick st now inps o) t
  end.

(** 0 = the trace satisfies every clause; otherwise the first violated clause *)
Definition mon_verdict (tr : list (op * tobs)) : N := snd (mon_run ([], 0%N) tr).
Definition ok_C16 (tr : list (op * tobs)) : bool := (mon_verdict tr =? 0)%N.

(** ---- case evaluation ---- *)
Definition inp_of (ci : cinp) (o : lobs) : inp :=
  mkInp (ci_id ci) (ci_rtt ci) (ci_bytes ci) (ci_nak ci) (ci_bps ci) (o_lewma o).

Definition dummy_lobs : lobs := L 0 0 0 fzero fzero fzero 0 fzero false [].

Fixpoint zip_inps (cis : list cinp) (os : list lobs) : list inp :=
  match cis with
  | [] => []
  | ci :: t => inp_of ci (hd dummy_lobs os) :: zip_inps t (tl os)
  end.

Fixpoint ops_of (cops : list cop) (impl : list tobs) : list op :=
  match cops with
  | [] => []
  | T now cis :: t => Tick now (zip_inps cis (t_links (hd (TO [] []) impl))) :: ops_of t (tl impl)
  end.

Definition lobs_diff (a b : lobs) : Z :=   (* 0 = equal, else 1 + index of the first differing field *)
  if negb (o_st a =? o_st b) then 1
  else if negb (o_md a =? o_md b) then 2
  else if negb (o_tgt a =? o_tgt b) then 3
  else if negb (feqb (o_ewma a) (o_ewma b)) then 4
  else if negb (feqb (o_var a) (o_var b)) then 5
  else if negb (feqb (o_min a) (o_min b)) then 6
  else if negb (o_lpm a =? o_lpm b) then 7
  else if negb (feqb (o_lewma a) (o_lewma b)) then 8
  else if negb (Bool.eqb (o_deg a) (o_deg b)) then 9
  else if negb (zlist_eqb (o_priv a) (o_priv b)) then 10
  else 0.

Fixpoint links_diff (a b : list lobs) : Z :=
  match a, b with
  | [], [] => 0
  | x :: a', y :: b' => let d := lobs_diff x y in if d =? 0 then links_diff a' b' else d
  | _, _ => 11
  end.

Fixpoint insert_sorted (x : Z) (l : list Z) : list Z :=
  match l with [] => [x] | y :: t => if x <=? y then x :: l else y :: insert_sorted x t end.
Definition sortZ (l : list Z) : list Z := fold_right insert_sorted [] l.

Definition tobs_diff (m i : tobs) : Z :=
  let d := links_diff (t_links m) (t_links i) in
  if negb (d =? 0) then d
  else if negb (zlist_eqb (sortZ (t_keys m)) (sortZ (t_keys i))) then 12 else 0.

(** first disagreement between the model's trace and the implementation's: 0 = none,
    else 16 * (1-based tick index) + field code *)
Fixpoint trace_diff (m : list (op * tobs)) (impl : list tobs) (k : Z) : Z :=
  match m, impl with
  | [], [] => 0
  | (_, om) :: m', oi :: i' =>
      let d := tobs_diff om oi in
      if d =? 0 then trace_diff m' i' (k + 1) else 16 * k + d
  | _, _ => 16 * k + 13
  end.

(** the f64 rendering of the target arithmetic (Model/LinkCcF.v) agrees with the integer model
    on every link step of the history (ids distinct per tick) *)
Fixpoint float_ok_from (c : ctrl) (ops : list op) : bool :=
  match ops with
  | [] => true
  | Tick now inps :: t =>
      let c' := tick_all c now inps in
      forallb (fun i => float_agrees (getd link_default c (i_id i)) (getd link_default c' (i_id i)) i) inps
      && float_ok_from c' t
  end.

(** ---- clause 11 (monitor only, on the implementation's trace): the loss average is a TIME-DECAYED
    average.  The average itself is an oracle input of the model (its weight 1 - exp(-dt/tau) has no
    counterpart in Coq's primitive floats), so the latch clauses above judge the latch against the
    average the code reports.  What can be judged without exp: after the link's first update, one
    update moves the average towards the window's loss fraction by at most dt/tau of the gap
    (1 - exp(-x) <= x); in particular it never jumps to the instantaneous value.  The monitor keeps
    its own record of the previous update (a tick that leaves the link outside Bootstrap updates the
    average; a link absent from a tick is forgotten, as the controller forgets it). *)
Definition f_abs (x : float) : float := PrimFloat.abs x.
Definition lpm_frac (lpm : Z) : float :=
  let x := (LinkCcF.z2f (Z.max 0 (Z.min lpm 1000000)) / 1000)%float in
  if f_lt 1 x then 1%float else x.

Definition ewma_step_ok (t0 : Z) (old : float) (now : Z) (o : lobs) : bool :=
  let dt := now - t0 in
  if dt <? 0 then true
  else if 2000 <=? dt then true     (* dt >= tau: no constraint *)
  else
    let inst := lpm_frac (o_lpm o) in
    let gap := f_abs (inst - old)%float in
    let bound := ((gap * (LinkCcF.z2f dt / FConstants.LOSS_EWMA_TAU_MS)) * 0x1.000010c6f7a0bp+0 + 0x1.12e0be826d695p-30)%float in
    f_le (f_abs (o_lewma o - old)%float) bound.

Definition emap := list (Z * (Z * float)).
Fixpoint eget (m : emap) (k : Z) : option (Z * float) :=
  match m with [] => None | (k', v) :: t => if k' =? k then Some v else eget t k end.

Fixpoint ewma_links (prev : emap) (now : Z) (cis : list cinp) (os : list lobs) : bool * emap :=
  match cis, os with
  | ci :: cis', o :: os' =>
    let '(ok, m) := ewma_links prev now cis' os' in
    let id := ci_id ci in
    if o_st o =? 0 then
      (* no update at this tick: the record is carried over *)
      (ok, match eget prev id with Some v => (id, v) :: m | None => m end)
    else
      (* an update stamped 0 ms is indistinguishable from "no update yet" for the code (time 0 is the
         controller's "never" value); the next update may snap again *)
      let ok1 := match eget prev id with
                 | Some (t0, old) => if t0 =? 0 then true else ewma_step_ok t0 old now o
                 | None => true end in
      (ok && ok1, (id, (now, o_lewma o)) :: m)
  | _, _ => (true, [])
  end.

Fixpoint ewma_run (prev : emap) (cops : list cop) (impl : list tobs) : bool :=
  match cops, impl with
  | T now cis :: t, o :: impl' =>
    let '(ok, m) := ewma_links prev now cis (t_links o) in
    ok && ewma_run m t impl'
  | _, _ => true
  end.

Definition cl_ewma_step : N := 11.
Definition ewma_verdict (c : case) : N := if ewma_run [] (c_ops c) (c_impl c) then 0%N else cl_ewma_step.

Definition check_case (c : case) : N :=
  let ops := ops_of (c_ops c) (c_impl c) in
  let d := trace_diff (run ops) (c_impl c) 1 in
  let v0 := mon_verdict (combine ops (c_impl c)) in
  let v := if (v0 =? 0)%N then ewma_verdict c else v0 in
  let shape_bad := negb (length (c_ops c) =? length (c_impl c))%nat in
  if negb (v =? 0)%N then ((if (d =? 0)%Z then 0 else 1) + 2 + 4 * v)%N
  else if shape_bad then (1 + 4 * 63)%N
  else if negb (d =? 0)%Z then (1 + 4 * (64 + Z.to_N d))%N
  else if negb (float_ok_from [] ops) then (1 + 4 * 62)%N
  else if negb (wf_inputs ops) then (1 + 4 * 61)%N   (* harness produced an out-of-scope history *)
  else 0%N.

(** diagnostic helpers (used when investigating a replay by hand) *)
Definition model_trace (c : case) : list tobs := map snd (run (ops_of (c_ops c) (c_impl c))).
Definition case_wf (c : case) : bool := wf (ops_of (c_ops c) (c_impl c)).
