(** Run_C01.v — case type, runner, monitor and [check_case] for C01
    "Uplink path forwards every SRT datagram intact, once, in per-link order".

    A case carries the initial link descriptions, the ops (with every external
    choice — scheduler answer, gate flags, sendmmsg results, housekeeping
    effects — as read back from the real run), the observation the harness took
    after each op on the real code, and the final queues.

    The MONITOR is the property text as a reference machine over the observable
    trace only (wire datagrams per uplink, queue depth per uplink): per uplink a
    FIFO [m_pend] of copies accepted and not yet transmitted, and the number
    [m_since] of routed data packets since the last duplicate on that uplink.
    It knows nothing about regimes, thresholds, counters or the flush logic.
    Clause codes (detail):
      1  output or queue change on an uplink although no datagram was accepted
         for it / nothing may happen there (datagram invented, spurious send)
      2  a transmitted datagram is not the oldest accepted-and-unsent datagram of
         that uplink, byte for byte (modified, reordered, duplicated)
      3  an accepted datagram is neither sent nor still queued although the
         uplink neither failed nor was reset (silently dropped)
      4  32 or more datagrams held on an uplink that has I/O (more than one batch)
      5  a queue is not empty after a flush tick on an uplink that has I/O
      6  an extra copy was queued on an uplink that was not stall-gated
      7  an extra copy within 100 routed data packets of the previous one
      8  a datagram that is not sender-originated SRTLA control (keepalive / REG1 /
         REG2) left on an uplink during a housekeeping / uplink-packet step
      9  malformed observation (wrong number of uplinks) *)
From Srtla Require Import Base Constants Wire.
From Srtla Require Export Forward.

Definition dgram_eqb : dgram -> dgram -> bool := zlist_eqb.

Record mlink := { m_pend : list cpy; m_since : option Z }.

(** the datagrams [w] seen on the wire must be the first |w| pending copies,
    unchanged and in order; what remains must still be queued (depth [q]) unless a
    send failed on this uplink in this step (then it may all be gone). *)
Definition deliver (pend1 : list cpy) (w : list dgram) (q : Z) (fail : bool) : N * list cpy :=
  let k := length w in
  if negb (list_eqb dgram_eqb w (map fst (firstn k pend1))) then (2%N, [])
  else
    let rest := skipn k pend1 in
    if blen rest =? q then (0%N, rest)
    else if fail && (q =? 0) then (0%N, [])
    else (3%N, []).

Definition finish (io : bool) (m : mlink) (d : N * list cpy) (since' : option Z) : N * mlink :=
  let '(c, p) := d in
  if negb (c =? 0)%N then (c, m)
  else if io && (32 <=? blen p) then (4%N, m)
  else (0%N, {| m_pend := p; m_since := since' |}).

(** nothing may happen on this uplink in this step *)
Definition quiet (m : mlink) (w : list dgram) (q : Z) : N * mlink :=
  match w with
  | [] => if q =? blen (m_pend m) then (0%N, m) else (1%N, m)
  | _ => (1%N, m)
  end.

Definition is_ctl (d : dgram) : bool :=
  match d with
  | a :: b :: _ =>
    let t := be16 a b in
    (t =? SRTLA_TYPE_KEEPALIVE) || (t =? SRTLA_TYPE_REG1) || (t =? SRTLA_TYPE_REG2)
  | _ => false
  end.

Definition mon_link (io : bool) (o : op) (j : nat) (m : mlink) (w : list dgram) (q : Z) : N * mlink :=
  match o with
  | Client now pkt sel reg gated orc =>
    match pkt, sel with
    | [], _ => quiet m w q
    | _, None => quiet m w q
    | _, Some i =>
      let fail := has_fail (orc_of orc j) in
      (* one more routed data packet since the last duplicate on this uplink *)
      let since1 := if is_some (seq_of pkt) then option_map (Z.add 1) (m_since m) else m_since m in
      if Nat.eqb j i then
        finish io m (deliver (m_pend m ++ [(pkt, false)]) w q fail) since1
      else if blen w + q =? blen (m_pend m) + 1 then
        (* an extra copy was queued on an uplink the scheduler did not choose *)
        if negb (nth j gated false) then (6%N, m)
        else if match since1 with Some s => s <? 100 | None => false end then (7%N, m)
        else finish io m (deliver (m_pend m ++ [(pkt, true)]) w q fail) (Some 0)
      else finish io m (deliver (m_pend m) w q fail) since1
    end
  | FlushTick now orc =>
    let d := deliver (m_pend m) w q (has_fail (orc_of orc j)) in
    if (fst d =? 0)%N && io && negb (q =? 0) then (5%N, m) else finish io m d (m_since m)
  | SetRegime _ _ => quiet m w q
  | SetConn _ _ => quiet m w q
  | Reset i _ =>
    if Nat.eqb j i then
      match w with
      | [] => if q =? 0 then (0%N, {| m_pend := []; m_since := m_since m |}) else (1%N, m)
      | _ => (1%N, m)
      end
    else quiet m w q
  | House eff _ =>
    if negb (forallb is_ctl w) then (8%N, m)
    else match nth j eff HKeep with
         | HReset _ => if q =? 0 then (0%N, {| m_pend := []; m_since := m_since m |}) else (1%N, m)
         | _ => if q =? blen (m_pend m) then (0%N, m) else (1%N, m)
         end
  | Other _ =>
    if negb (forallb is_ctl w) then (8%N, m)
    else if q =? blen (m_pend m) then (0%N, m) else (1%N, m)
  end.

Fixpoint mon_links (o : op) (j : nat) (ios : list bool) (ms : list mlink)
         (ws : list (list dgram)) (qs : list Z) : N * list mlink :=
  match ms, ios, ws, qs with
  | [], [], [], [] => (0%N, [])
  | m :: ms', io :: ios', w :: ws', q :: qs' =>
    let '(c, m') := mon_link io o j m w q in
    if (c =? 0)%N then
      let '(c2, r) := mon_links o (S j) ios' ms' ws' qs' in (c2, m' :: r)
    else (c, [])
  | _, _, _, _ => (9%N, [])
  end.

(** returns 0, or clause + 256 * (1-based index of the failing step) *)
Fixpoint mon_run (ios : list bool) (ms : list mlink) (tr : list (op * obs)) (k : N) : N :=
  match tr with
  | [] => 0%N
  | (o, ob) :: t =>
    let '(c, ms') := mon_links o 0 ios ms (o_wire ob) (o_q ob) in
    if (c =? 0)%N then mon_run ios ms' t (k + 1)%N else (c + 256 * (k + 1))%N
  end.

Definition m_init (x : linit) : mlink := {| m_pend := []; m_since := None |}.
Definition monitor (xs : list linit) (tr : list (op * obs)) : N :=
  mon_run (map i_io xs) (map m_init xs) tr 0.
Definition ok_C01 (xs : list linit) (tr : list (op * obs)) : bool := (monitor xs tr =? 0)%N.

(** ---- correspondence: model observation = implementation observation ---- *)
Definition dl_eqb := list_eqb dgram_eqb.
Definition obs_eqb (a b : obs) : bool :=
  list_eqb dl_eqb (o_wire a) (o_wire b) && zlist_eqb (o_q a) (o_q b) &&
  zlist_eqb (o_ctr a) (o_ctr b) && list_eqb Bool.eqb (o_conn a) (o_conn b).

(** first step (1-based) at which the model's observation differs, and the final state *)
Fixpoint cmp_run (ls : list link) (tr : list (op * obs)) (k : N) : N * list link :=
  match tr with
  | [] => (0%N, ls)
  | (o, ob) :: t =>
    let '(ls', mo) := step ls o in
    if obs_eqb mo ob then cmp_run ls' t (k + 1)%N else ((k + 1)%N, ls')
  end.

(** final per-link state read from the implementation:
    queue entries (bytes, seq, queue time), last_flush_ms, regime *)
Definition fin_link := (list (dgram * option Z * Z) * Z * regime)%type.
Definition regime_eqb (a b : regime) : bool :=
  match a, b with
  | LowActivity, LowActivity | Normal, Normal | HighLoad, HighLoad => true
  | _, _ => false
  end.
Definition qe_eqb (a b : dgram * option Z * Z) : bool :=
  let '(d1, s1, t1) := a in let '(d2, s2, t2) := b in
  dgram_eqb d1 d2 && ozeqb s1 s2 && (t1 =? t2).
Definition fin_of (l : link) : fin_link :=
  (map (fun e => (q_d e, q_seq e, q_t e)) (queue l), last_flush l, regime_of l).
Definition fin_eqb (a b : fin_link) : bool :=
  let '(q1, f1, r1) := a in let '(q2, f2, r2) := b in
  list_eqb qe_eqb q1 q2 && (f1 =? f2) && regime_eqb r1 r2.

(** [CaseU]: the same, plus for every step the harness's own judgement, taken BEFORE the step on the real
    links, whether some uplink was usable in the sense of the property text / of C03 (connected and not timed
    out under the configured liveness window, the link's own copy of the window agreeing with it).  Clause
      10 the session is established, an uplink is usable, a non-empty client datagram arrives, and the sender
         routes it nowhere (dropped before / instead of scheduling)
    is evaluated on the implementation's trace only: in the model the scheduler's answer is an input
    (that a usable uplink always gets the packet is property C03's theorem). *)
Inductive case :=
| Case (init : list linit) (tr : list (op * obs)) (fin : list fin_link)
| CaseU (init : list linit) (tr : list (op * obs)) (fin : list fin_link) (us : list bool).

Definition blackout_step (o : op) (u : bool) : bool :=
  match o with
  | Client _ pkt sel reg _ _ =>
    match pkt, sel with
    | _ :: _, None => reg && u
    | _, _ => false
    end
  | _ => false
  end.

(** 1-based index of the first step that drops a datagram although an uplink was usable, 0 if none *)
Fixpoint first_blackout (tr : list (op * obs)) (us : list bool) (k : N) : N :=
  match tr, us with
  | (o, _) :: t, u :: us' => if blackout_step o u then k else first_blackout t us' (k + 1)%N
  | _, _ => 0%N
  end.

(** short constructors for case text *)
Definition L (r : regime) (c : bool) (k : Z) (io : bool) : linit :=
  {| i_regime := r; i_conn := c; i_ctr := k; i_io := io |}.
Definition O (w : list (list dgram)) (q c : list Z) (b : list bool) : obs :=
  {| o_wire := w; o_q := q; o_ctr := c; o_conn := b |}.

Definition check_core (xs : list linit) (tr : list (op * obs)) (fin : list fin_link) : N :=
  let '(kb, ls) := cmp_run (init xs) tr 0 in
  let kb := if negb (kb =? 0)%N then kb
            else if list_eqb fin_eqb (map fin_of ls) fin then 0%N
            else (N.of_nat (length tr) + 1)%N in
  let mon := monitor xs tr in
  let code := (mon mod 256)%N in
  let km := (mon / 256)%N in
  ((if (kb =? 0)%N then 0 else 1) + (if (code =? 0)%N then 0 else 2) + 4 * code +
   1024 * (if (code =? 0)%N then kb else km))%N.

Definition check_case (c : case) : N :=
  match c with
  | Case xs tr fin => check_core xs tr fin
  | CaseU xs tr fin us =>
    let r := check_core xs tr fin in
    if N.testbit r 1 then r
    else let k := first_blackout tr us 1 in
         if (k =? 0)%N then r else (N.land r 1 + 2 + 4 * 10 + 1024 * k)%N
  end.
